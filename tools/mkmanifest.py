#!/usr/bin/env python3
"""Regenerates /verif/MANIFEST.json from the table below (keeps it valid and in sync)."""
import json, os, sys
ROOT = os.path.dirname(os.path.dirname(os.path.abspath(__file__)))

TECH = 'contract-based deductive verification: CBMC 6.11 function/loop contracts (goto-instrument --dfcc) on C lowered mechanically from the real C++ AST on every run'
TB = ('Trusted: clang-14 AST of the real TU; the cxx2c rule table (guarded on every run by bit-exact native co-execution with the real C++, not proved); '
      'the shim contracts for libstdc++/libm entries; CBMC + MiniSat. ')

CLAIMS = {
    'C01': dict(
        text='Proof, for every register size n <= 20, every target / ordered control-target pair, every angle and every amplitude index (ghost index), that '
             'applySingleQubitGate performs the 2x2 update on exactly the index pairs differing in bit q, that h/x/y/z/rx/ry/rz call it with the qelib1 matrix '
             '(entries as uninterpreted-FP terms), that cx swaps exactly the target pairs in the control=1 subspace and is the identity elsewhere, and that refused '
             'operands leave the state untouched. Loops closed by inductive invariants, no unwinding.',
        note=TB + 'Floating-point operators are uninterpreted functions with bitwise equality (rounding of the products and libm accuracy are not verified; the numeric '
             'value of each matrix is checked only by the native oracle with tolerance 1e-11). NMAX=20 is an object-size bound. The evaluator dispatch block is under contract (unit QEV: one like-named simulator call per built-in name of the real table, own operands in order); how `eval` turns a variable / element / field expression into the qubit handle is not.',
        ref='DESIGN.md §4 C01'),
    'C02': dict(
        text='Proof that measure returns (r < p1) for the single draw r, where p1 is the index-ordered fold of |amp|^2 over the indices with bit q set (ghost fold), '
             'that the surviving branch is old/sqrt(p) and the other branch exactly 0 for every index, flags the qubit, and logs one line; simulator side only.',
        note=TB + 'P(r < p1) = p1 is an assumption on std::uniform_real_distribution/mt19937 (not checkable by contracts). FP operators uninterpreted. '
             'Evaluator side (unit QEV): the MeasureExpression branch of eval and the MeasureStatement branch of exec are proved to consult the lock, measure once per qubit (per array element: loop invariant, ghost element), flag the same qubit, and to return / record / track exactly the simulator\'s bit.',
        ref='DESIGN.md §4 C02'),
    'C03': dict(
        text='Proof of the structural half on the simulator: every operation preserves size == 2^n and the flag-vector invariant; allocateQubit doubles the vector, '
             'keeps every existing amplitude, zero-fills the new half; collapse/reset write the normalised branch. Evaluator side (unit QBK): allocateTrackedQubit returns an in-range handle that differs from every live handle (ghost live handle) and is no longer on the free list; '
             'releaseQubit keeps the free list duplicate-free and in range whatever is released (no precondition on membership), so two declarations are never handed one simulator qubit. ',
        note=TB + 'Unit norm and finiteness are consequences in real arithmetic of the proved index-level contracts (unitary 2x2 update, permutation, division by sqrt(p)); '
             'machine arithmetic is treated as mathematical there and checked only by the native oracle (|norm^2 - 1| < 1e-9 on the sweep). That no reachable handle still holds a released index '
             '(whole-heap reasoning over object fields) is a caller obligation of releaseQubit and NOT verified; the simulator is seen by QBK through the contracts proved in SIM (ghost flag array).',
        ref='DESIGN.md §4 C03'),
    'C04': dict(
        text='Proof that reset samples the target as a measurement would (one draw, branch b = r < p1), writes old[gk | b*bit]/sqrt(p_b) into the target=0 half and exact 0 into the '
             'target=1 half for every index, clears the flag and logs one line: the Kraus form {P0, X.P1}, which is what leaves the other qubits\' reduced state unchanged on average.',
        note=TB + 'The step from the Kraus form to "reduced state unchanged" is a written real-arithmetic lemma (DESIGN.md §5 L4), not a code obligation. '
             'The ResetStatement branch of exec (unit QEV) is proved to check existence, reset that qubit in the simulator once, then unlock it; the release paths in destroyObject are not under contract.',
        ref='DESIGN.md §4 C04'),
    'C05': dict(
        text='Proof per operation: with logging on, each simulator operation appends exactly one entry whose pieces are the qelib1 spelling with its own operands in order '
             '(none when refused or logging is off), cx refuses identical operands, logged indices are < n; getQasm emits header, qreg/creg sized to n, then every entry in order (ghost index).',
        note=TB + 'Strings are piece lists (literal | int | to_string(double)); std::to_string rendering is trusted. Replay-equivalence is the written induction over these per-op '
             'contracts and C01/C02/C04. The evaluator dispatch (unit QEV) passes each call\'s own operands in order to the like-named simulator operation; the CLI file/stdout sinks are not under contract.',
        ref='DESIGN.md §4 C05'),
    'C06': dict(
        text='Proof of the simulator-side state machine: ensureQubitActive throws Runtime iff the index is out of range or flagged; every gate, cx and measure refuse exactly then and '
             'leave state and log untouched; measure sets the flag of q only; reset and allocateQubit clear it; other flags are kept (ghost index).',
        note=TB + 'Evaluator side (unit QBK): ensureQubitActive raises a Runtime error located at the given line/column iff the handle is out of range or flagged; markMeasured/unmarkMeasured/releaseQubit/allocateTrackedQubit move the '
             'flag as the state machine says and keep the other entries. Unit QEV: the gate-dispatch block, the measure expression / statement and the reset statement are proved to consult the lock for every qubit operand, at the position of the call, BEFORE the simulator is touched, never to reach the simulator when the lock refuses, and to flag / unflag exactly the operated qubit. NOT verified: the access paths (how a variable, element, parameter or field expression evaluates to the handle).',
        ref='DESIGN.md §4 C06'),
    'C07': dict(
        text='Kernel only: proof, for every operand tag combination and every operand value (all 2^64 bit patterns per operand), that the BinaryExpression / UnaryExpression / LiteralExpression branches of eval follow the '
             'documented semantics: result tag float if any float, else long if any long, else int; + - * on the promoted operands; / always float with a located error on a zero divisor; integer % with a located error on zero; '
             'comparisons on the promoted pair; && || ! on boolean/bit; & | ^ ~ on bits and element-wise on equal-length bit arrays (ghost element index, loop invariants) with a located error on a length mismatch; unary minus keeps the tag; '
             'literal tag follows the literal type, string/char payloads are the quoted text. Control flow (unit OBJM, regions exec_block / exec_for / exec_while): once a nested statement has returned, nothing more of the block or loop runs - no further statement, increment or condition (ghost count of what runs while a return is pending). Arrays (unit ASTORE, the whole element-read and element-store branches of eval): a[i] with any int index is a located Runtime error outside the array and otherwise the element with the tag of the element type; a[i] = v likewise refuses outside the array and otherwise writes the variable once, keeps the length and every other element (ghost element) and stores the converted value. Casts (unit ASTORE, the whole CastExpression branch): the result has the target type; (int) of a float truncates toward zero, (float) of int / long / bit is exact, (bit) of a non-zero value is 1, (long) widens; strings, objects, arrays and void cannot be cast (located Runtime error) and the documented numeric casts never fail. Postfix (unit ASTORE, region eval_postfix): x++ / x-- yield the old value and write the variable once with the value one larger / smaller (int, long, float; values not at the end of the range). Store site (unit SCOPE, clause assign.int_stored_in_a_long_variable_is_widened): an int assigned to a variable that holds a long must leave a long there - this obligation FAILS on this code base and is a KNOWN-FINDING (the variable keeps the int tag and the next `y + 1` wraps at 32 bits; native replay).',
        note=TB + 'Regions are addressed structurally in the real eval; operand evaluation (recursive eval) is an assumed stub. Double arithmetic and the VALUE of integer * / % are uninterpreted functions (code and specification are built '
             'from the same symbols; bitwise equality); 32/64-bit + and - are specified modulo 2^n. NOT covered: the other store sites that share the known finding (declaration with initialiser, member assignment, parameter binding, return values, field initialisers), string concatenation/formatting (valueToString is opaque), control flow, calls, '
             'scoping, arrays with value semantics, echo - i.e. everything the property says about whole programs beyond these three branches.',
        ref='DESIGN.md §4 C07'),
    'C08': dict(
        text='Kernel only: (a) overload resolution. Run time (unit OVL): valueConversionCost follows the cost table (exact 0, int->long 1, null 3 for class parameters, inheritance distance for classes over an uninterpreted hierarchy, nothing else fits), '
             'argumentsConversionCost is the sum of the per-argument costs with arity check (loop invariant, ghost fold), and the selection loop of findMethod returns the unique minimum-cost candidate and nothing on a tie (ghost cursor). '
             'Compile time (unit SEMK): conversionCost follows the same table, so both sides rank candidates identically on matching static/dynamic types (written lemma over the two contracts). '
             '(b) destructor order (unit OBJM): the destructor walk of destroyObject visits the whole chain obj->cls, base, ... (class table of up to 8 classes, acyclic), enters the destructor of every class that declares one exactly once, executes its first statement, '
             'derived class before base class (two ghost chain positions), each in its own class context with `this` bound to the object and stamped with that class, one scope deep, and restores context and scope depth (two nested loop contracts). '
             '(c) dispatch: in the member-call branch of eval, obj.m(...) runs the vtable entry of the receiver\'s DYNAMIC class for the signature found through the static class when that method is virtual, the statically found method otherwise, and super.m(...) runs the method found in the base of the static class (region member_dispatch; class / method / vtable lookups uninterpreted); for super.m(...) and Name.m(...) - where the target evaluates to a class reference - the named class\'s version runs, a super call keeps the object the running method was called on as receiver, a static call has none (region member_dispatch_super; found and repaired: super.m() passed no receiver). '
             '(d) construction order: in runConstructorChain the base-constructor chain (for the base class, the same object) runs exactly once and first, then this class\'s field initialisers exactly once, then the constructor body starting after an explicit super(...) statement; a failing phase stops the construction (region ctor_phases: the three phase statements in source order, three loop contracts, events on a ghost clock); an explicit super(args) runs the applicable base constructor of lowest conversion cost and fails when none or two cheapest apply (the specification\'s own argmin is kept as ghost state next to the code\'s choice). '
             '(e) the run-time class table (unit CTAB): buildClassTable populates every class after the class it extends, so the layout / vtable a class inherits by copy is complete whatever the order of declaration (appendBaseFirst proved with its own contract as induction hypothesis; the populate loop proved against that contract; found and repaired: declaration-order population). (g) static fields (unit OBJM, findStaticFieldWithOwner as a whole function): the storage of a static field is that of the nearest class on the chain cls, base, ... that DECLARES it - one slot per declaring class, whichever subclass or object it is reached through (ghost chain position; loop contract). (f) vtable building (unit VTB): in the loop over a class\'s members, the vtable entry for a signature the class declares virtual / override is that class\'s own method with that signature, every virtual / override method of the class has its entry, and each entry points to LIVE storage when the class is complete - a push_back on a std::vector bucket is modelled as possibly starting a new generation of the bucket (reallocation), on a std::deque never (found and repaired: vector buckets, so a class with two virtual overloads of one name crashed or dispatched wrongly).',
        note=TB + 'exec / beginScope / endScope / the `this` binding are models with bodies that only record ghost events. NOT covered: what runs INSIDE the phases (runFieldInitialisers itself, the parameter-to-field copy of `= default` constructors, the implicit zero-argument base constructor choice), the copying of the base vtable itself, findMethod\'s candidate collection, static field INITIALISATION, generics, WHEN destroyObject is called '
             '(reference counting / cycle collector; observed: a constructor ending in `return this;` leaves a hidden reference in m_returnValue, so `destroy` of that object never runs its destructor), the candidate '
             'collection loops, and the stamping of a reference with its DECLARED class at declaration / parameter binding - observed defect: `A a = new Sub(); k.g(a)` runs g(Sub) although the analyser resolved g(A) (native oracle, label site.binding.*).',
        ref='DESIGN.md §4 C08'),
    'C09': dict(
        text='Kernel only, with ghost state: (a) the scope-stack walk of RuntimeEvaluator::lookup and ::assign is proved to find / write the innermost binding of the name and to leave every other entry untouched (ghost scope and entry index, loop '
             'invariants); the property clause itself - the binding used never lies below the frame base of the current call (ghost g_fb) - is an obligation that FAILS on this code base and is reported as two KNOWN-FINDINGs (dynamic scoping of lookup / of assign) '
             'with a replay on the real interpreter; any other failing obligation is still a VIOLATION. (b) frame set-up: the parameter-binding loops of call, callMethod and runConstructorChain are proved to bind every parameter in the NEW top scope (observed at an arbitrary name), '
             'to bind nothing but parameter names, and to leave every entry of every caller scope untouched (loop invariants; beginScope is checked to be the one-line push it is modelled as). '
             '(c) the BlockStatement branch of exec opens exactly one scope and closes it on every path, also when a nested statement returns (region exec_block, unit OBJM); endScope pops exactly one scope (unit TRK); the ForStatement branch likewise (region exec_for). The analyser\'s compound-statement visitors restore the scope depth on every exit, the exceptional ones included (unit NEST).',
        note=TB + 'The frame base is a ghost parameter equal to the index of the scope pushed by beginScope(). NOT covered: the part of lookup/assign after the walk (fields, statics, class names), that the callee body (exec) stays inside its frame - it does not, see the two findings - '
             'the binding of `this`, the analyser\'s resolution order, and the renaming corollary (a written argument over these contracts).',
        ref='DESIGN.md §4 C09'),
    'C10': dict(
        text='Kernel only (function half): proof that after the pre-declaration loop of SemanticAnalyser::analyse every top-level function (ghost index) is declared AND has its signature on record - parameter count and return type - '
             'or the loop stopped with one Semantic error for a duplicate name; loop invariants on the outer loop and the parameter loop. With every signature on record before any body is analysed, no later check can depend on where a declaration stands. '
             'Class half, kernel (unit TFA): SemanticAnalyser::typeFromAst as a whole function - while the class registry is being built (when the class table holds only EARLIER declarations) the type of a member / parameter / return type is computed from its syntax alone: the class table is never consulted and nothing is rejected on its account (ghost call counters; loop contracts over type parameters and type arguments; the recursive calls use the same contract as induction hypothesis). Unit CYC, region validate_class: the override / abstractness validation of a class runs after that of its base class, whichever is visited first (recursive lambda, contract-only copy as induction hypothesis). Run time (unit CTAB): buildClassTable populates base classes before derived classes whatever the order of declaration (found and repaired: a class declared before its base inherited an empty layout).',
        note=TB + 'The analyser tables are ghost state observed at one arbitrary name; typeFromAst is uninterpreted. NOT covered: that the call-site checks read only that table; the rest of the class half (member registration order inside buildClassRegistry, instantiateGeneric); module merge order. CTAB assumes class declarations as the parser builds them and an acyclic hierarchy (rank witness; cycles are rejected by the analyser, unit CYC).',
        ref='DESIGN.md §4 C10'),
    'C12': dict(
        text='Kernel only: (a) every lowered unit (all of them: the harnesses of every unit are registered for C12 as well) carries CBMC bounds / pointer / division / shift obligations on every harness: for any input satisfying the stated invariants those functions never index out of range; '
             '(b) the arithmetic branches of eval can only end in a value or a located Runtime error: explicit no-trap obligations on every signed / and % (INT_MIN / -1, x / 0), no raw C++ exception from literal conversion '
             '(std::stoi / stoll / stof modelled as possibly failing on long text), nor from the lexer (string_view::substr), the version parser or the qubit bookkeeping; (c) constant folding in the analyser (unit CFOLD, the BinaryExpression branch of evaluateConstInt) never traps: zero divisors are Semantic errors, x % -1 is 0, INT_MIN / -1 is a Semantic error (found and repaired: SIGFPE on `(-2147483647 - 1) % -1`); (c2) no vtable entry dangles (unit VTB, see C08): found and repaired - a SIGSEGV on two virtual overloads of one name; (d) element reads a[i] and stores a[i] = v (unit ASTORE): every access to the element vector is inside it for ANY int index - a negative or too large index computed at run time is a located Runtime error.',
        note=TB + 'NOT covered (stated so nobody reads a green check as covering it): container / lifetime behaviour that the lowering abstracts away - vtable pointers into a growing std::vector, teardown order after an error with a live '
             'qubit-owning object (a confirmed SIGSEGV, design_probes/repro/C12_runtime_error_with_live_object_segv.bloch), recursion depth, null references, the class system. Signed + - * overflow is treated as wrapping (no trap).',
        ref='DESIGN.md §4 C12'),
    'C13': dict(
        text='Proof for the lexer (every member function): every loop terminates (decreases clause on bytes left), every source access is in bounds, every cursor move is '
             'forward, and tokenize ends either with exactly one Lexical diagnostic or with a token vector ending in Eof after consuming the whole source - for any byte string up to 1 MiB. '
             'No raw C++ exception (string_view::substr out_of_range) can surface.',
        note=TB + 'Beyond the lexer only isolated pieces are under contract: the inheritance-cycle walk of buildClassRegistry (unit CYC: terminates for every class table - decreases clause over the set of marked names - and answers a cycle with one Semantic error) the "only Semantic errors at the node" clauses of the analyser rule sites (units SEMK, NEST), the parser\'s token cursor, annotation prefix parsers and type look-ahead (unit PANN: never leave the token vector, terminate, only Parse errors), the array-size literal of parseType (region parseType_array_size: std::stoi may raise std::out_of_range - dynamic exception kinds are modelled, a handler for a narrower type catches only that kind - and the result is a Parse error, never a raw exception) and the main / @shots extraction tail of ModuleLoader::load (unit LDSH: only Semantic errors whatever the annotation text - std::stoi modelled as possibly failing beyond 9 digits -, two mains rejected, the annotation value carried into the program). The rest of the recursive-descent parser, the rest of the module loader and of the analyser are NOT under contract; '
             'the keyword-table lookup is a trusted library model.',
        ref='DESIGN.md §4 C13'),
    'C14': dict(
        text='Kernel only: (a) full-domain proof (every TokenType value, and every ordered pair of them) that the Pratt binding-power table realises the documented precedence ladder of docs/grammar.md: '
             'exactly the documented operators have a binding, binary levels are left-associative (lbp < rbp), a tighter operator on the right is absorbed by the right operand and an equal or looser one ends it, '
             'operators of one level share one binding, every binary operator binds looser than prefix operators and every postfix form binds at least as tight. '
             '(b) the annotation prefix (unit PANN): the token cursor (advance, expect, check, ...) never leaves the token vector, and parseVariableAnnotation / parseFunctionAnnotation / parseAnnotations accept exactly `@ tracked`, `@ quantum` and `@ shots ( int )` '
             '(node kind, name and value as in the tokens, cursor just after the annotation; loop contract over the annotation list) and answer anything else after `@` with one Parse error at the offending token; the declaration look-ahead isTypeAhead (and its generic-argument skipper) never leaves the token vector, terminates (three loop contracts with decreases clauses), does not move the cursor, and says yes for a primitive type keyword or `Name Name` and no for anything that is neither a type keyword nor an identifier. (c) assignmentExpression = logicalOr [ "=" assignmentExpression ]: parseAssignmentExpression parses its left operand as a full Pratt expression and, after an `=`, its right operand by recursion from the token after the `=` - right associative (region parseAssignmentExpression_head; the two operand parsers are ghost-recording models).',
        note=TB + 'The claim is limited to the table, the prefix constant, the annotation prefix and the operand structure of assignment expressions (token vectors of up to 8 tokens, up to 4 annotations: object-size bounds; the lexer-delivered shape of the vector - one Eof, at the end - is a precondition proved in unit LEX). '
             'That parsePrattExpression applies the table as a Pratt loop should, statement and class-member dispatch, the type-ahead heuristic and the render-then-parse round trip are NOT under contract (recursive descent over unique_ptr trees is outside the lowering). '
             'CaDiCaL is the back end of the parseAnnotations harness (MiniSat needs 5 minutes for it).',
        ref='DESIGN.md §4 C14'),
    'C15': dict(
        text='Proof that the token scanToken returns is located at the TRUE position (ghost line/column maintained only by the two byte-consuming primitives, by the definition of a 1-based position) '
             'of its first character, that its text is exactly the bytes consumed for it (slice identity for scanned tokens, byte-for-byte with a ghost index for literal-valued ones), that the '
             'lexer position equals the true position after every function, that skipWhitespace stops only at the end or at a non-trivia byte, skipComment consumes no newline, and tokenize consumes the whole source and puts Eof at the true end.',
        note=TB + 'Any source up to 1 MiB (object-size bound). That the bytes skipWhitespace consumes are only whitespace or comment bodies is proved as "stops at first non-trivia"/"no newline in a comment", '
             'not as a full classification of every skipped byte.',
        ref='DESIGN.md §4 C15'),
    'C16': dict(
        text='Kernel plus six rule sites: full-domain proof (every ValueType pair, every Visibility, arbitrary class hierarchy as an uninterpreted relation) of the analyser\'s compatibility kernel against the relation the property states: '
             'matchesPrimitive, numericPromotion, isAccessible (public always; private owner only; protected owner or subclass), isAssignableType and conversionCost (accept => same primitive / widening / same class or subclass / '
             'null only for class references / same array type; a class or array value never converts to a primitive), the accept/reject decision of the initialiser site (validateTypedInitializer region); and, as whole functions, the visitors of four syntactic sites - '
             'return statement, assignment statement, assignment expression, member assignment, postfix ++/-- (never on final variables or final fields, only on int / long) - and the argument check of call expressions (checkArgs), each proved to accept a value only if it has the declared type (local variable, bare field, object.field, function result), to reject assignments to final variables at the node position, '
             'to reject a value in a void function and a bare return in a non-void one, to route every field write through the final-field rule, to refuse inaccessible fields, instance fields via a type name and final fields except through this inside a constructor; '
             'resolveField (accessibility, static context) and recordFinalFieldAssignment (own constructor, top level, exactly once - map observed at a ghost key). Accessibility sites (unit ACC): every `if (!isAccessible(X->visibility, ..., m_currentClass)) throw` statement of the visitors (five member sites, discovered on every run) refuses exactly when the member is not accessible per ITS OWN visibility and ITS OWN declaring class. Constant folding (unit CFOLD): a zero divisor in a constant integer expression is a Semantic error, sums and differences are exact. "Top level" itself (unit NEST): the visitors of block, if, ternary, for and while statements analyse every part - header expressions included - with the nesting depth raised and restore it on every exit, exceptional ones included (scope-exit guards lowered to a single exit point; loop contract over a block\'s statements).',
        note=TB + 'Generic type-parameter paths are excluded by precondition; class names are interned identities; typeEquals / isSubclassOf / inheritanceDistance / inferTypeInfo / getVariableType / findFieldInHierarchy / accept are contract-only stubs or one-record models (the type of an expression and the class tables are uninterpreted). NOT covered: that each rule is invoked in every syntactic position '
             '(~55 further visitor methods) - the call-argument check is under contract as the local lambda checkArgs (arity, every argument has the declared parameter type; loop invariant with a ghost argument index), but the rest of visit(CallExpression&) (callee resolution, accessibility, static context, super calls) is not; array-element assignment, postfix on finals, void operands, static-context and instantiation rules, @quantum / @shots rules.',
        ref='DESIGN.md §4 C16'),
    'C17': dict(
        text='Proof of the recording and reporting kernel: (unit TRK) RuntimeEvaluator::endScope and ::recordTrackedValue as whole functions - every @tracked qubit / qubit[] entry of the closing scope (arbitrary iteration order, ghost entry index) and every recorded field value contributes exactly one outcome, '
             'nothing else contributes, the key is "qubit <name>" / "qubit[] <name>" (or the given name), the outcome is "1"/"0" of the last measurement or "?" for a single qubit and, for an array, the bit string of the last measurement of each element in index order, '
             '"?" exactly if some element is unmeasured or out of range (witness index), exactly one scope is popped (three nested loop contracts); (unit QEV) measuring a whole qubit[] records for every element the simulator\'s bit under that element\'s own qubit id; (unit CLI, regions of runImpl) @shots(N) takes precedence over --shots=N, a run without either is a single run, '
             'echo is shown for --echo=all always, for --echo=none never, in auto mode (named or default) exactly for a single shot, the per-shot table is ADDED into the aggregate (observed at an arbitrary (variable, outcome) cell; two nested loop contracts with partial sums), and the probability column is count / the sum of that variable\'s counts (loop contracts; total as an exact integer fold).',
        note=TB + 'Strings are (literal id, interned name, <= 8 built characters); qubit arrays have <= 8 elements, scopes <= 8 entries, tables <= 8 outcomes (object-size bounds). Double division is an uninterpreted function, so "probabilities lie in [0,1] and sum to 1" is the written real-arithmetic consequence of count / total, checked numerically only by the native oracle. '
             'For --echo=none the property text ("exactly when --echo=all or a single shot is run") is read with the documented meaning of none (never). NOT covered: that every scope exit calls endScope and every owner destruction calls recordTrackedValue, '
             'the shot loop itself (one fresh evaluator per shot), sorting and formatting of the table, @shots extraction in the module loader.',
        ref='DESIGN.md §4 C17'),
    'C20': dict(
        text='Proof of the updater decision logic: parseSemVer (unbounded string length up to 64 bytes, loop contracts on both loops) never raises, is valid only if the first component is a number, '
             'and each component is the std::stoi value of a maximal digit run in order; compareSemVer equals the sign of the numeric lexicographic order over all 2^192 pairs (lemmas: antisymmetric, transitive, '
             'invalid compares equal); hasLatest is true iff both parse and current >= latest; the gate of performSelfUpdate reaches the download only if both versions parse and the release is strictly newer; '
             'maybePrintNotice prints iff due, only after 72 h, only for a parsable strictly newer release, and stamps the window (lemma: never two notices within one window); checkForUpdatesIfDue does '
             'nothing (no output, fetch, load or save) when BLOCH_NO_UPDATE_CHECK / CI / BLOCH_OFFLINE is set, prints at most one notice and, when it prints one, saves the cache stamped with this run\'s time (what makes the 72 h throttle hold across invocations). '
             'BOUNDED stand-in (never counted as proved): parseChecksum against an independent specification (first field of the first line whose file-name field equals the asset name exactly) for every checksums.txt of at most 8 bytes and asset names of 1..2 bytes.',
        note=TB + 'I/O (cache load/save, release fetch, stdin prompt, clock) are contract-only stubs (assumed); determinism of parseSemVer at call sites is an assumed clause justified by its proved frame; '
             'std::stoi is modelled (<= 9 digits always fits). parseChecksum scans with istringstream / getline / operator>>: its library models have loops without contracts, so it is checked bounded only (stated bound above). NOT covered: '
             'persistence of the cache between processes, download/extract/replace steps.',
        ref='DESIGN.md §4 C20'),
}

NA = {
    'C07': 'check not built yet (kernel units ARITH/SLOT planned, DESIGN.md §3)',
    'C08': 'check not built yet (kernel units OVL/SLOT planned)',
    'C09': 'check not built yet (kernel unit SCOPE planned)',
    'C10': 'check not built yet (kernel unit SIGS planned)',
    'C11': 'not applicable: schedules/thread interleavings and C++ temporaries as GC roots are outside sequential per-function contracts (DESIGN.md §4 C11)',
    'C12': 'check not built yet (kernel: safety obligations of every lowered unit + ARITH)',
    'C13': 'check not built yet (units LEX/PCUR/LDSH planned)',
    'C14': 'check not built yet (units PTAB/PANN planned)',
    'C15': 'check not built yet (unit LEX planned)',
    'C16': 'check not built yet (kernel unit SEMK planned)',
    'C17': 'check not built yet (units QBK/CLI planned)',
    'C18': 'not applicable: relates execution k of one Program object to a fresh parse across the whole visitor/interpreter code; no per-function contract in reach expresses it (DESIGN.md §4 C18)',
    'C19': 'not applicable: every deciding operation (path resolution, load-once cache, cycle stack, package check, wildcard directories) is std::filesystem plus recursion through the parser; a contract would only restate assumed file-system behaviour (DESIGN.md §4 C19). The only clause within reach - the main-function count at the end of ModuleLoader::load - is under contract in unit LDSH as a helper of C13/C17, which is far too little to claim the property.',
    'C20': 'check not built yet (unit UPD planned)',
}


def main():
    checks = []
    for pid in sorted(CLAIMS):
        c = CLAIMS[pid]
        checks.append(dict(
            property_id=pid,
            quick_cmd='bin/check %s --tier quick' % pid,
            thorough_cmd='bin/check %s --tier thorough' % pid,
            evidence_file='/verif/evidence/%s.json' % pid,
            replay_cmd_template='bin/check %s --replay {path}' % pid,
            engine='cbmc-contracts',
            level_claimed=dict(category='proof', text=c['text'], design_ref=c['ref']),
            level_note=c['note'],
            technique=TECH,
        ))
    m = dict(
        version=1,
        setup_cmd='true',
        hooks=dict(guard='BLOCH_VERIF', enable='no hooks: the checks read /repo sources through clang\'s AST and compile the real .cpp files into their native replay drivers; /repo is never built with a define',
                   baseline_off_cmd='cmake --build /repo/_build && ctest --test-dir /repo/_build -j8 --timeout 900', source_commits=[], add_only=True),
        engines=[dict(name='cbmc-contracts', path='/verif/tools', serves_properties=sorted(CLAIMS),
                      kind_free_text='clang JSON AST -> cxx2c whitelist lowering to C -> sidecar contracts (units/*.py) -> goto-cc / goto-instrument --dfcc / cbmc; native co-execution + oracle replay against the real C++')],
        checks=checks,
        not_applicable=[dict(property_id=k, reason=v) for k, v in sorted(NA.items()) if k not in CLAIMS],
        notes='See DESIGN.md. exit 0 = all obligations discharged; exit 1 = VIOLATION lines; exit 2 = undecided (extraction/binding/tool break, timeout, proof broken but not refuted).',
    )
    json.dump(m, open(os.path.join(ROOT, 'MANIFEST.json'), 'w'), indent=1)
    print('MANIFEST.json: %d checks, %d not_applicable' % (len(checks), len(m['not_applicable'])))


if __name__ == '__main__':
    main()
