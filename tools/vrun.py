#!/usr/bin/env python3
"""Pipeline: lower a unit from /repo's working tree, splice the sidecar contracts, and discharge
each harness with goto-cc -> goto-instrument --dfcc -> cbmc.  See DESIGN.md §2."""
import os, re, sys, json, time, subprocess, importlib, shutil, hashlib
from concurrent.futures import ThreadPoolExecutor

ROOT = os.path.dirname(os.path.dirname(os.path.abspath(__file__)))
WORK = os.environ.get('VERIF_WORK', os.path.join(ROOT, '.work'))   # scratch directory of all runs
sys.path.insert(0, ROOT)
from tools import cxx2c
from tools.cxx2c import Unsupported

MEM_KB = 12 * 1024 * 1024
CBMC_CHECKS = ['--bounds-check', '--pointer-check', '--div-by-zero-check', '--signed-overflow-check',
               '--unsigned-overflow-check', '--undefined-shift-check', '--pointer-overflow-check',
               '--no-malloc-may-fail', '--object-bits', '12']


BOUNDED_CHECKS = ['--bounds-check', '--pointer-check', '--div-by-zero-check', '--signed-overflow-check', '--no-malloc-may-fail', '--object-bits', '12']


class Break(Exception):
    """extraction / binding / tool break: exit 2, never a verdict"""


def sh(cmd, log=None, timeout=None, cwd=None):
    t0 = time.time()
    pre = 'ulimit -v %d; ' % MEM_KB
    try:
        r = subprocess.run(['bash', '-c', pre + 'exec "$@"', 'sh'] + cmd, stdout=subprocess.PIPE, stderr=subprocess.STDOUT,
                           text=True, timeout=timeout, cwd=cwd, errors='replace')
        out, rc = r.stdout, r.returncode
    except subprocess.TimeoutExpired as e:
        out = (e.stdout or '')
        if isinstance(out, bytes):
            out = out.decode(errors='replace')
        out += '\n*** TIMEOUT after %ss\n' % timeout
        rc = -9
    if log:
        with open(log, 'w') as f:
            f.write('$ ' + ' '.join(cmd) + '\n' + out)
    return rc, out, time.time() - t0


# ------------------------------------------------------------------------------ lowering

def load_unit(name):
    return importlib.import_module('units.' + name.lower())


def lower_unit(unit, workdir):
    """-> dict(text=[lines with markers], profile=Profile instance, protos=[...])"""
    os.makedirs(workdir, exist_ok=True)
    try:
        docs = cxx2c.ast_dump(unit.SRC, unit.AST_FILTER, workdir, getattr(unit, 'CLANG_ARGS', ()))
        prof = unit.Profile(set(unit.FUNCS), set(unit.THROWING))
        prof.unit_src = unit.SRC
        prof.unit_namespace = getattr(unit, 'NAMESPACE', None)
        prof.unit_libs = getattr(unit, 'LIBS', [])
        if hasattr(prof, 'prepare'):
            prof.prepare(docs, workdir)
        if hasattr(unit, 'lower'):
            return unit.lower(docs, prof)
        protos, bodies = [], []
        unlowered = {}
        for fn in unit.FUNCS:
            ds = cxx2c.find_functions(docs, fn)
            if len(ds) != 1:
                raise Unsupported('function %s: %d definitions found in %s' % (fn, len(ds), unit.SRC))
            try:
                head, lines = prof.func(ds[0], is_method=prof.IS_METHOD)
            except Unsupported as e:
                # one function left the lowerable subset: its own harness (and every harness that
                # inlines it) is undecided; the others go on.  The prototype is still needed.
                unlowered[fn] = 'EXTRACTION BREAK (%s::%s): %s' % (unit.NAME, fn, e)
                head = prof.head_only(ds[0], is_method=prof.IS_METHOD)
                lines = None
            protos.append(head + ';')
            if lines is not None:
                bodies.append([head] + lines)
        if hasattr(unit, 'lower_regions'):
            for head, lines in unit.lower_regions(docs, prof):
                protos.append(head + ';')
                if lines is not None:
                    bodies.append([head] + lines)
            # a region may leave the lowerable subset on its own (isolated like a function)
            for fn, msg in getattr(prof, 'region_unlowered', {}).items():
                unlowered[fn] = 'EXTRACTION BREAK (%s::%s): %s' % (unit.NAME, fn, msg)
        prof.fn_unlowered = unlowered
        # file-level constants referenced by the lowered text (e.g. static constexpr size_t k = 8)
        if prof.needed_globals:
            gdocs = cxx2c.ast_dump(unit.SRC, sorted(prof.needed_globals), workdir, getattr(unit, 'CLANG_ARGS', ()))
            prof.resolve_globals(gdocs)
        return dict(protos=protos, bodies=bodies, profile=prof, unlowered=unlowered)
    except Unsupported as e:
        raise Break('EXTRACTION BREAK (%s): %s' % (unit.NAME, e))


def splice(unit, low, harnesses, out_c, mode='proof'):
    """Insert contracts at the markers. Returns (label_by_line, labels, binding_breaks).
    mode 'bounded': loop contracts and in-loop ghost code are left out; the function's
    `bounded_prologue` (ghost spec values computed by an explicit, unwound loop) is added."""
    prof = low['profile']
    lits = getattr(prof, 'lits', [])

    def subst(text):
        def rep(m):
            lit = m.group(1)
            return str(lits.index(lit)) if lit in lits else '(-1000 - %d)' % (len(lit))
        text = re.sub(r'(?<![A-Z_])LIT\(("(?:[^"\\]|\\.)*")\)', rep, text)
        if hasattr(prof, 'subst'):
            text = prof.subst(text)
        return text

    lines = ['#include "%s"' % unit.SHIM]
    if hasattr(prof, 'file_prelude'):
        lines += prof.file_prelude()
    lines += prof.global_defs
    lines += subst(unit.GHOSTS).split('\n')
    lines += low['protos'] + ['', '/*@@BODIES@@*/']
    labels = {}   # label -> props
    # binding checks: loops and locals named by the sidecar must exist (per function; a break
    # sends the harnesses of that function to the bounded route, never to a verdict)
    breaks = {}
    for fn, msg in getattr(prof, 'fn_unlowered', {}).items():
        breaks[fn] = msg
    for fn, spec in unit.CONTRACTS.items():
        if fn in breaks:
            continue
        if fn not in prof.fn_loops:
            raise Break('CONTRACT BINDING BREAK (%s): function %s is not lowered' % (unit.NAME, fn))
        nl = prof.fn_loops[fn]
        want = dict(spec.get('loops', {}))
        for k in spec.get('unwound_loops', []):
            want[k] = None      # deliberately left to complete unwinding (width-bounded loop)
        if want and (max(want) >= nl or len(want) != nl):
            breaks[fn] = 'CONTRACT BINDING BREAK (%s): %s has %d loop(s), sidecar binds %s' % (unit.NAME, fn, nl, sorted(want))
        elif not want and nl and not spec.get('loop_free_ok'):
            breaks[fn] = 'CONTRACT BINDING BREAK (%s): %s has %d loop(s), sidecar binds none' % (unit.NAME, fn, nl)
        for loc in spec.get('locals', []):
            if loc not in prof.fn_locals[fn]:
                breaks[fn] = 'CONTRACT BINDING BREAK (%s): local %s of %s no longer exists' % (unit.NAME, loc, fn)
    post = []
    lowered_heads = set(b[0] for b in low['bodies'])
    for p in low['protos']:
        h0 = p[:-1]
        if h0 in lowered_heads:
            continue
        fn0 = re.search(r'(\w+)\(', h0).group(1)
        fn0 = fn0[len(prof.CLS) + 1:] if prof.CLS and fn0.startswith(prof.CLS + '_') else fn0
        spec0 = unit.CONTRACTS.get(fn0, {})
        lines.append(h0)
        for clause in spec0.get('contract', []):
            (label, ckind, text, props) = clause[:4]
            if (clause[4] if len(clause) > 4 else {}).get('enforce_only'):
                continue
            lines.append('__CPROVER_%s(%s)' % (ckind, subst(text)))
        lines.append(';  /* body not lowered: %s */' % breaks_msg(prof, fn0))
        lines.append('')
    for body in low['bodies']:
        head = body[0]
        for ln in body:
            m = re.match(r'^(\s*)/\*@(\w+):([\w:$]+)@\*/\s*$', ln)
            if not m:
                lines.append(ln)
                continue
            ind, kind, key = m.group(1), m.group(2), m.group(3)
            parts = key.split(':')
            fn = parts[0]
            spec = unit.CONTRACTS.get(fn, {})
            if kind == 'CONTRACT':
                for clause in spec.get('contract', []):
                    (label, ckind, text, props) = clause[:4]
                    opts = clause[4] if len(clause) > 4 else {}
                    # enforce_only: the clause is part of the contract only where the function is the one
                    # being verified; leaving it out where the contract replaces a call assumes less (sound)
                    if opts.get('enforce_only'):
                        lines.append('#ifdef ENFORCING_%s' % fn)
                    if opts.get('replace_only'):
                        # assumed where the contract replaces a call, never proved: only used for the
                        # determinism of a function whose frame shows it is pure (listed as an assumption)
                        lines.append('#ifndef ENFORCING_%s' % fn)
                    lines.append('__CPROVER_%s(%s)%s' % (ckind, subst(text), ' /*L:%s*/' % label if label else ''))
                    if opts.get('enforce_only') or opts.get('replace_only'):
                        lines.append('#endif')
                    if label:
                        labels[label] = props
            elif kind == 'PROLOGUE':
                if spec.get('prologue'):
                    lines.append(ind + 'GHOST(%s)' % subst(spec['prologue']))
                if mode == 'bounded' and spec.get('bounded_prologue'):
                    lines.append(ind + 'GHOST(%s)' % subst(spec['bounded_prologue']))
            elif kind == 'AFTERDECL':
                g = spec.get('after_decl', {}).get(parts[1])
                if g and fn not in breaks:
                    lines.append(ind + 'GHOST(%s)' % subst(g))
            else:
                k = int(parts[1])
                lp = spec.get('loops', {}).get(k)
                if lp is None or fn in breaks:
                    continue
                # bounded mode: the loop contract is left out; in-loop ghost code is left out too unless the
                # sidecar marks it `ghost_in_bounded` (operational ghost state that the ensures clauses read,
                # as opposed to ghost code that only feeds invariants)
                if mode == 'bounded' and (kind == 'LOOP' or not lp.get('ghost_in_bounded')):
                    continue
                if kind == 'BEFORELOOP' and lp.get('before'):
                    lines.append(ind + 'GHOST(%s)' % subst(lp['before']))
                elif kind == 'AFTERLOOP' and lp.get('after'):
                    lines.append(ind + 'GHOST(%s)' % subst(lp['after']))
                elif kind == 'LOOPBODY' and lp.get('body_begin'):
                    lines.append(ind + 'GHOST(%s)' % subst(lp['body_begin']))
                elif kind == 'LOOP':
                    if lp.get('assigns'):
                        lines.append(ind + '__CPROVER_assigns(%s)' % lp['assigns'])
                    for (label, text) in lp.get('invariants', []):
                        lines.append(ind + '__CPROVER_loop_invariant(%s) /*L:%s*/' % (subst(text), label))
                        labels[label] = None
                    if lp.get('decreases'):
                        lines.append(ind + '__CPROVER_decreases(%s) /*L:%s.decreases.%d*/' % (lp['decreases'], fn, k))
        lines.append('')
    lines += post
    for h in harnesses:
        lines += harness_text(unit, prof, h)
        for lab, props in (h.get('labels') or {}).items():
            labels[lab] = props
    with open(out_c, 'w') as f:
        f.write('\n'.join(lines) + '\n')
    label_by_line = {}
    for i, ln in enumerate(lines, 1):
        m = re.search(r'/\*L:([\w.]+)\*/', ln)
        if m:
            label_by_line[i] = m.group(1)
    return label_by_line, labels, breaks


def breaks_msg(prof, fn):
    return getattr(prof, 'fn_unlowered', {}).get(fn, '').replace('*/', '* /')


def harness_text(unit, prof, h):
    if h.get('body'):
        return ['#ifndef NATIVE', 'void h_%s(void) {' % h['name']] + h['body'].split('\n') + ['}', '#endif', '']
    # default: call the function on uninitialised (nondeterministic) arguments
    cn = (prof.CLS + '_' if prof.CLS else '') + h['fn']
    proto = [p for p in h['_protos'] if re.search(r'\b%s\(' % re.escape(cn), p)][0]
    params = proto[proto.index('(') + 1: proto.rindex(')')]
    decls, names = [], []
    if params.strip() != 'void':
        for i, p in enumerate(params.split(',')):
            p = p.strip()
            m = re.match(r'^(.*?)(\w+)$', p)
            decls.append('  %s a%d;' % (m.group(1).strip(), i))
            names.append('a%d' % i)
    cans = h.get('canaries')
    if cans is None:
        cans = [('bl_exc == 0', 'normal return'), ('bl_exc != 0', 'exceptional return')] if h['fn'] in unit.THROWING else [('1', 'return')]
    can = ['  if (%s) __CPROVER_assert(0, "VACUITY_CANARY %s of %s reachable under the requires clauses");' % ((prof.subst(c) if hasattr(prof, 'subst') else c), n, h['fn']) for c, n in cans]
    return ['#ifndef NATIVE', 'void h_%s(void) {' % h['name']] + decls + ['  ' + (prof.subst(x) if hasattr(prof, 'subst') else x) for x in h.get('pre', [])] + ['  %s(%s);' % (cn, ', '.join(names))] + can + ['}', '#endif', '']


# ------------------------------------------------------------------------------ cbmc

RES_RE = re.compile(r'^\[(?P<id>[^\]]+)\] (?:line (?P<line>\d+) )?(?P<desc>.*): (?P<st>SUCCESS|FAILURE|UNKNOWN|ERROR)$')


def parse_cbmc(out, main_c):
    """-> list of dict(id, file, line, desc, status)"""
    res = []
    cur_file = None
    in_results = False
    for ln in out.split('\n'):
        if ln.startswith('** Results:'):
            in_results = True
            continue
        if not in_results:
            continue
        m = re.match(r'^(\S+) function (\S+)$', ln)
        if m:
            cur_file = m.group(1)
            continue
        m = RES_RE.match(ln)
        if m:
            res.append(dict(id=m.group('id'), file=cur_file, line=int(m.group('line')) if m.group('line') else None,
                            desc=m.group('desc'), status=m.group('st')))
        if ln.startswith('** ') and 'failed' in ln:
            in_results = False
    return res


def extract_trace(out, prop_id, maxlines=400):
    key = 'Trace for %s:' % prop_id
    i = out.find(key)
    if i < 0:
        return ''
    j = out.find('\nTrace for ', i + 10)
    k = out.find('\n** ', i + 10)
    ends = [e for e in (j, k) if e > 0]
    seg = out[i: min(ends)] if ends else out[i:]
    ls = seg.split('\n')
    if len(ls) > maxlines:
        ls = ls[:maxlines // 2] + ['... (%d lines elided) ...' % (len(ls) - maxlines)] + ls[-maxlines // 2:]
    return '\n'.join(ls)


def run_harness(unit, h, src_c, workdir, label_by_line, mode='proof', solver=None):
    """mode 'proof': loop contracts applied, no unwinding.  mode 'bounded': loop contracts not
    applied, small object bound, --unwind with unwinding assertions."""
    prof_cls = unit.Profile
    cn = (prof_cls.CLS + '_' if prof_cls.CLS else '')
    name = h['name'] + ('' if mode == 'proof' else '.bounded')
    base = os.path.join(workdir, name)
    entry = 'h_' + h.get('entry_name', h['name'])      # second-backend runs use another file tag, same harness
    defs = ['-DVERIF'] + ([] if h.get('lemma') else ['-DENFORCING_' + h['fn']]) + ['-D' + f for f in h.get('flags', [])]
    if mode == 'bounded':
        defs += ['-DBL_BOUNDED'] + ['-D' + d for d in h.get('bounded_defs', ['NMAX=2'])]
    t0 = time.time()
    rc, out, _ = sh(['goto-cc', '-I', os.path.join(ROOT, 'shim')] + defs + ['--function', entry, src_c, '-o', base + '.a.gb'],
                    log=base + '.gotocc.log', timeout=300)
    if rc != 0:
        raise Break('TOOL BREAK: goto-cc failed for %s/%s (see %s)\n%s' % (unit.NAME, name, base + '.gotocc.log', out[-1500:]))
    gi = ['goto-instrument', '--no-malloc-may-fail', '--dfcc', entry]
    if not h.get('lemma'):
        gi += ['--enforce-contract', cn + h['fn']]
    repl = list(h.get('replace', []) if mode == 'proof' else h.get('bounded_replace', []))
    if mode == 'proof':
        # library models that exist only as contracts in the modular route (loops inside the real shim body)
        text = open(src_c).read()
        for r in getattr(unit, 'ALWAYS_REPLACE', []):
            if r not in repl and re.search(r'\b%s\(' % r, text.split('/*@@BODIES@@*/')[-1]):
                repl.append(r)
    for r in repl:
        gi += ['--replace-call-with-contract', (cn + r) if r in unit.CONTRACTS else r]
    if mode == 'proof':
        gi += ['--apply-loop-contracts']
    gi += [base + '.a.gb', base + '.b.gb']
    for _attempt in range(12):
        rc, out, _ = sh(gi, log=base + '.instrument.log', timeout=600)
        m = re.search(r"Function to replace '(\w+)' not found", out)
        if rc != 0 and m and m.group(1) in gi:
            # the call does not occur in the code reachable from this harness: nothing to replace
            k = gi.index(m.group(1))
            del gi[k - 1:k + 1]
            continue
        break
    if rc != 0:
        raise Break('TOOL BREAK: goto-instrument failed for %s/%s (see %s)\n%s' % (unit.NAME, name, base + '.instrument.log', out[-1500:]))
    if mode == 'bounded':
        # the bounded stand-in looks for a concrete counterexample to the function's own ensures
        # clauses; it runs with the memory-safety checks only (stated in the evidence)
        cb = ['cbmc', base + '.b.gb'] + BOUNDED_CHECKS + ['--unwind', str(h.get('unwind', 6)), '--unwinding-assertions']
        cb += list(h.get('bounded_cbmc_args', []))
        if h.get('bounded_unwindset'):
            # per-function recursion bounds (a recursion that the precondition makes unreachable would
            # otherwise be unrolled --unwind times at every call site)
            cb += ['--unwindset', ','.join(h['bounded_unwindset'])]
    else:
        cb = ['cbmc', base + '.b.gb'] + CBMC_CHECKS + list(h.get('cbmc_args', []))
        if h.get('unwindset'):
            # loops the sidecar marks `unwound_loops` have a small constant trip count: they are
            # unwound completely (the unwinding assertion proves the bound)
            cb += ['--unwindset', ','.join(h['unwindset']), '--unwinding-assertions']
    for c in h.get('no_checks', []):
        if c in cb:
            cb.remove(c)
        if c in ('--signed-overflow-check', '--bounds-check', '--pointer-check', '--div-by-zero-check', '--undefined-shift-check', '--pointer-overflow-check'):
            cb.append('--no-' + c[2:])      # these checks are on by default in cbmc 6
    if solver:
        cb += solver
    to = h.get('timeout', 600) if mode == 'proof' else h.get('bounded_timeout', 600)
    rc, out, dt = sh(cb, log=base + '.cbmc.log', timeout=to)
    res = parse_cbmc(out, src_c)
    status = 'ok'
    if rc == -9 or '*** TIMEOUT' in out:
        status = 'timeout'
    elif 'VERIFICATION SUCCESSFUL' in out:
        status = 'ok'
    elif 'VERIFICATION FAILED' in out:
        # canaries are assertions that are *meant* to fail (reachability witnesses)
        real = [r for r in res if r['status'] != 'SUCCESS' and 'VACUITY_CANARY' not in r['desc']]
        status = 'failed' if real else 'ok'
        # UNKNOWN / ERROR: CBMC could not decide these (seen when a check raised while evaluating the
        # requires clauses fails first): undecided, never a refutation
        if any(r['status'] in ('UNKNOWN', 'ERROR') for r in res):
            # ... unless the failing check sits in the CODE (a genuine safety failure, after which CBMC leaves the rest
            # undecided): then the FAILUREs stand and the UNKNOWNs are ignored
            spec_lines = set(i for i, l in enumerate(open(src_c), 1) if re.search(r'__CPROVER_(requires|ensures|assigns|loop_invariant|decreases)\(', l))
            hard = [r for r in res if r['status'] == 'FAILURE' and 'VACUITY_CANARY' not in r['desc']]
            in_spec = [r for r in hard if r['file'] and os.path.basename(r['file']) == os.path.basename(src_c) and r['line'] in spec_lines
                       and not re.search(r'postcondition|loop_invariant|loop_decreases|precondition', r['id'])]
            if in_spec or not hard:
                status = 'toolerror'
            else:
                status = 'failed'
                for r in res:
                    if r['status'] in ('UNKNOWN', 'ERROR'):
                        r['status'] = 'SUCCESS'
                        r['undecided_after_failure'] = True
    else:
        status = 'toolerror'
    src_name = os.path.basename(src_c)
    # postconditions are numbered by CBMC in clause order; the source line it reports for a clause is
    # sometimes the line of the PREVIOUS clause (seen with multi-line macro arguments), so the ordinal decides
    spec_h = unit.CONTRACTS.get(h.get('fn'), {})
    ens_labels = [c[0] for c in spec_h.get('contract', []) if c[1] == 'ensures' and not (c[4] if len(c) > 4 else {}).get('replace_only')]
    for r in res:
        r['label'] = None
        if r['file'] and os.path.basename(r['file']) == src_name and r['line'] in label_by_line:
            r['label'] = label_by_line[r['line']]
        mo = re.match(r'^(\w+)\.postcondition\.(\d+)$', r['id'])
        if mo and mo.group(1).endswith(h.get('fn', '\0')) and 1 <= int(mo.group(2)) <= len(ens_labels):
            byord = ens_labels[int(mo.group(2)) - 1] or None
            if byord != r['label']:
                r['label_by_line'] = r['label']
                r['label'] = byord
    fails = [r for r in res if r['status'] != 'SUCCESS' and 'VACUITY_CANARY' not in r['desc']]
    if fails and status == 'failed':
        # second pass: counterexample traces for the failed obligations only (labelled clauses first)
        want = sorted(fails, key=lambda r: (0 if (r.get('label') and 'postcondition' in r['id']) else 1 if r.get('label') else 2))[:4]
        cbt = cb + ['--trace'] + sum([['--property', r['id']] for r in want], [])
        rc2, out2, dt2 = sh(cbt, log=base + '.trace.log', timeout=min(to, 300))
        for r in fails:
            full = extract_trace(out2, r['id'], maxlines=10 ** 9)
            r['trace'] = extract_trace(out2, r['id'])
            # last (and first) assignment per identifier, taken from the FULL trace (the stored text is abridged)
            last, first = {}, {}
            for m in re.finditer(r'^\s+([A-Za-z_][\w.$!@\[\]]*)=([^ \n]+)', full, re.M):
                last[m.group(1)] = m.group(2)
                first.setdefault(m.group(1), m.group(2))
            r['trace_last'] = last
            r['trace_first'] = first
    guards = []
    if 'ignoring' in out and 'forall' in out:
        guards.append('quantifier ignored by back end')
    if re.search(r'SMT2.*Parse Error', out):
        guards.append('SMT2 parse error')
    return dict(unit=unit.NAME, harness=name, fn=h['fn'], mode=mode, status=status, wall_s=round(time.time() - t0, 2),
                solver_s=round(dt, 2), results=res, failures=fails, guards=guards, log=base + '.cbmc.log',
                cmd=' '.join(gi) + ' && ' + ' '.join(cb), replace=h.get('replace', []), flags=h.get('flags', []))


def reachable_functions(low, prof, root):
    """names of the unit's functions reachable from `root` through calls in the lowered text"""
    pre = (prof.CLS + '_') if prof.CLS else ''
    body = {}
    for b in low['bodies']:
        m = re.search(r'\b%s(\w+)\(' % re.escape(pre), b[0])
        if m:
            body[m.group(1)] = '\n'.join(b[1:])
    names = set(body) | set(getattr(prof, 'fn_unlowered', {}))
    seen, todo = set(), [root]
    while todo:
        f = todo.pop()
        if f in seen:
            continue
        seen.add(f)
        for g in names:
            if g not in seen and re.search(r'\b%s%s\(' % (re.escape(pre), re.escape(g)), body.get(f, '')):
                todo.append(g)
    return seen


def prepare_unit(unit_name, workdir):
    unit = load_unit(unit_name)
    wd = os.path.join(workdir, unit.NAME)
    if os.path.isdir(wd):
        shutil.rmtree(wd)
    os.makedirs(wd)
    low = lower_unit(unit, wd)
    hs = [dict(h) for h in unit.HARNESSES]
    for h in hs:
        h['_protos'] = low['protos']
    src_c = os.path.join(wd, unit.NAME.lower() + '_verif.c')
    label_by_line, labels, breaks = splice(unit, low, hs, src_c, 'proof')
    src_b = os.path.join(wd, unit.NAME.lower() + '_bounded.c')
    lbl_b, _, _ = splice(unit, low, hs, src_b, 'bounded')
    return dict(unit=unit, wd=wd, low=low, harnesses=hs, src_c=src_c, label_by_line=label_by_line, labels=labels,
                src_b=src_b, label_by_line_b=lbl_b, breaks=breaks)


if __name__ == '__main__':
    # debugging aid:  vrun.py UNIT [harness ...]
    un = sys.argv[1]
    wd = os.path.join(WORK, 'dbg')
    try:
        pu = prepare_unit(un, wd)
    except Break as e:
        print(e)
        sys.exit(2)
    want = sys.argv[2:]
    mode = 'proof'
    if want and want[0] == '--bounded':
        mode = 'bounded'
        want = want[1:]
    hs = [h for h in pu['harnesses'] if not want or h['name'] in want]
    for fn, msg in pu['breaks'].items():
        print(msg)

    def go(h):
        try:
            if mode == 'bounded':
                return run_harness(pu['unit'], h, pu['src_b'], pu['wd'], pu['label_by_line_b'], mode)
            return run_harness(pu['unit'], h, pu['src_c'], pu['wd'], pu['label_by_line'], mode)
        except Break as e:
            return dict(harness=h['name'], status='break', msg=str(e), results=[], failures=[], wall_s=0)
    with ThreadPoolExecutor(max_workers=8) as ex:
        for r in ex.map(go, hs):
            print('%-28s %-9s %4d obligations, %d failed, %.1fs' % (r['harness'], r['status'], len(r['results']), len(r['failures']), r['wall_s']))
            if r['status'] == 'break':
                print(r['msg'])
            for f in r['failures']:
                print('    FAIL', f['id'], f['label'] or '', '|', f['desc'][:100])
