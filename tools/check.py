#!/usr/bin/env python3
"""check.py <PROPERTY> [--tier quick|thorough] [--replay FILE]

Decides one property of /verif/properties.jsonl on /repo's current working tree by discharging
the contract obligations of every harness registered for it (DESIGN.md §2.6).

exit 0  every obligation discharged (or only listed KNOWN-FINDINGs failed)
exit 1  VIOLATION property=<id> replay=<path>       (printed once per failing obligation label)
exit 2  undecided: extraction/binding/tool break, timeout, proof broken but not refuted
"""
import os, sys, re, json, time, shutil, argparse, importlib, traceback, subprocess
from concurrent.futures import ThreadPoolExecutor

ROOT = os.path.dirname(os.path.dirname(os.path.abspath(__file__)))
sys.path.insert(0, ROOT)
from tools import vrun
from tools.vrun import Break, WORK

UNITS = ['sim', 'lex', 'upd', 'ptab', 'qbk', 'arith', 'semk', 'ovl', 'scope', 'sigs', 'objm', 'trk', 'cli', 'qev', 'cyc', 'ldsh', 'pann', 'tfa', 'nest', 'ctab', 'astore', 'vtb', 'cfold', 'acc']          # extended as units are built (see units/*.py)
NCPU = os.cpu_count() or 8
UNIT_PAR = int(os.environ.get('VERIF_UNIT_PAR', '4'))      # units processed side by side


def all_units():
    out = []
    for u in UNITS:
        out.append(vrun.load_unit(u))
    return out


def known_findings():
    path = os.path.join(ROOT, 'known_findings.txt')
    out = []
    if os.path.exists(path):
        for ln in open(path):
            ln = ln.strip()
            m = re.match(r'^finding: property=(\S+) obligation=(\S+)(?: signature=(\S+))? (.*)$', ln)
            if m:
                out.append(dict(prop=m.group(1), label=m.group(2), sig=m.group(3), what=m.group(4)))
    return out


def classify(r, labels=None, locals_=()):
    """split the failures of one harness result:
       ens    - a labelled ensures clause that belongs to a property (property-level obligation)
       helper - proof-internal obligations: loop invariants/decreases, helper-level ensures (no
                property attached), preconditions of replaced callees, checks raised while
                evaluating a contract clause.  They never decide a property by themselves: the
                harness is re-checked bounded with everything inlined (DESIGN.md §2.6)
       safety - bounds/pointer/overflow/division/assigns-frame obligations raised by the code"""
    ens, helper, safety, canary = [], [], [], []
    labels = labels or {}
    for f in r['failures']:
        is_post = 'postcondition' in f['id'] or 'Check ensures' in f['desc'] or (f['label'] and '.assertion.' in f['id'] and f['desc'].startswith('LEMMA'))
        if 'VACUITY_CANARY' in f['desc']:
            canary.append(f)
        elif f['label'] and is_post and labels.get(f['label']):
            ens.append(f)
        elif re.search(r'\.assigns\.', f['id']) and re.match(r'^Check that (\w+) is assignable$', f['desc']) and re.match(r'^Check that (\w+) is assignable$', f['desc']).group(1) in locals_:
            helper.append(f)        # a local the loop contract does not list: proof-internal
        elif f['label'] or is_post or re.search(r'loop_invariant|loop_decreases|loop_step|loop_assigns|\.unwind\.|\.precondition\.', f['id']) \
                or ('loop' in f['desc'].lower() and 'invariant' in f['desc'].lower()) or re.search(r'__CPROVER_contracts|no_alloc_dealloc|no_recursive', f['id']):
            helper.append(f)
        else:
            safety.append(f)
    return ens, helper, safety, canary


def main():
    ap = argparse.ArgumentParser()
    ap.add_argument('prop')
    ap.add_argument('--tier', default=os.environ.get('VERIF_TIER', 'quick'))
    ap.add_argument('--replay')
    ap.add_argument('--only', help='comma-separated harness names (debugging)')
    args = ap.parse_args()
    prop = args.prop
    tier = args.tier if args.tier in ('quick', 'thorough') else 'quick'
    seed = int(os.environ.get('VERIF_SEED', '1') or 1)
    t_start = time.time()
    work = os.path.join(WORK, '%s-%s' % (prop, tier))
    if os.path.isdir(work):
        shutil.rmtree(work)
    os.makedirs(work)
    os.makedirs(os.path.join(ROOT, 'evidence'), exist_ok=True)
    os.makedirs(os.path.join(ROOT, 'replay'), exist_ok=True)

    if args.replay:
        return do_replay(prop, args.replay, work)

    undecided = []      # messages -> exit 2
    violations = []     # dict(label, replay, suffix)
    known_hits = []
    results = []        # per harness result dicts
    native = []         # native co-execution / oracle summaries
    units_used = []
    functions_under_contract = []

    def do_unit(unit):
        # one unit: lowering, proofs, triage, native validation.  Units are independent of each other and are processed side by side (UNIT_PAR at a
        # time) so that a property served by many units - C12 is served by all of them - stays a check one can run on every change.
        hs_all = [h for h in unit.HARNESSES if prop in h['props']]
        if args.only:
            hs_all = [h for h in hs_all if h['name'] in args.only.split(',')]
        if not hs_all:
            return
        try:
            pu = vrun.prepare_unit(unit.NAME, work)
        except Break as e:
            print(str(e))
            undecided.append(str(e))
            return
        units_used.append(pu)
        hs = [h for h in pu['harnesses'] if h['name'] in [x['name'] for x in hs_all]]
        for fn, msg in pu['breaks'].items():
            print(msg)

        # ---- native transliteration validation + oracle sweep, in parallel with the proofs
        nat_future = None
        ex = ThreadPoolExecutor(max_workers=max(2, NCPU // 2))
        if hasattr(unit, 'native_validate'):
            nat_future = ex.submit(unit.native_validate, pu, work, tier, seed)

        prof_ = pu['low']['profile']
        unl = set(getattr(prof_, 'fn_unlowered', {}))

        def missing_bodies(h, mode):
            """functions whose body is needed by this run (reachable and not replaced) but could not be lowered"""
            repl = set(h.get('replace', []) if mode == 'proof' else h.get('bounded_replace', []))
            need = set()
            todo, seen = [h['fn']], set()
            reach = vrun.reachable_functions(pu['low'], prof_, h['fn'])
            return sorted((reach & unl) - (repl - {h['fn']}))

        def go(h):
            try:
                if h.get('bounded_only'):
                    # a function outside the verifier's unbounded reach (DESIGN.md §2.6): no proof is attempted or claimed;
                    # the bounded run below stands in, is labelled bounded in the evidence and is never counted as discharged
                    return dict(harness=h['name'], fn=h['fn'], status='bounded-only', results=[], failures=[], wall_s=0, solver_s=0, mode='proof',
                                msg='bounded stand-in only: ' + h.get('bound', ''), guards=[], cmd='', replace=[], flags=h.get('flags', []))
                mb = missing_bodies(h, 'proof')
                if mb:
                    return dict(harness=h['name'], fn=h['fn'], status='extraction-break', results=[], failures=[], wall_s=0, solver_s=0, mode='proof',
                                msg='; '.join(prof_.fn_unlowered[f] for f in mb), guards=[], cmd='', replace=h.get('replace', []), flags=h.get('flags', []))
                if h['fn'] in pu['breaks'] or any(c in pu['breaks'] for c in h.get('inlines', [])):
                    return dict(harness=h['name'], fn=h['fn'], status='binding-break', results=[], failures=[], wall_s=0,
                                solver_s=0, mode='proof', msg=pu['breaks'].get(h['fn'], 'callee binding break'), guards=[], cmd='', replace=h.get('replace', []), flags=h.get('flags', []))
                solver = None
                r = vrun.run_harness(unit, h, pu['src_c'], pu['wd'], pu['label_by_line'], 'proof', solver)
                if tier == 'thorough' and r['status'] == 'ok' and h.get('second_solver', True):
                    r2 = vrun.run_harness(unit, dict(h, name=h['name'] + '.cadical', entry_name=h['name']), pu['src_c'], pu['wd'], pu['label_by_line'], 'proof', ['--sat-solver', 'cadical'])
                    r['second_backend'] = dict(solver='cadical', status=r2['status'], obligations=len(r2['results']), failed=len(r2['failures']), solver_s=r2['solver_s'])
                    if r2['status'] == 'failed':
                        r['status'] = 'failed'
                        r['failures'] = r2['failures']
                return r
            except Break as e:
                # a sidecar clause names a local / member the lowered text no longer has: a binding break (the
                # function was rewritten), handled like one - bounded run and oracle replay, never a verdict by itself
                st = 'binding-break' if re.search(r'failed to find symbol|has no member named|undeclared', str(e)) else 'break'
                return dict(harness=h['name'], fn=h['fn'], status=st, results=[], failures=[], wall_s=0, solver_s=0,
                            mode='proof', msg=str(e), guards=[], cmd='', replace=h.get('replace', []), flags=h.get('flags', []))

        def go_bounded(h):
            try:
                mb = missing_bodies(h, 'bounded')
                if mb:
                    return dict(harness=h['name'] + '.bounded', fn=h['fn'], status='extraction-break', results=[], failures=[], wall_s=0, solver_s=0, mode='bounded',
                                msg='; '.join(prof_.fn_unlowered[f] for f in mb), guards=[], cmd='', replace=[], flags=[])
                rb = vrun.run_harness(unit, h, pu['src_b'], pu['wd'], pu['label_by_line_b'], 'bounded')
                rb['bound'] = h.get('bound')
                return rb
            except Break as e:
                return dict(harness=h['name'] + '.bounded', fn=h['fn'], status='break', results=[], failures=[], wall_s=0,
                            solver_s=0, mode='bounded', msg=str(e), guards=[], cmd='', replace=[], flags=[])

        rs = list(ex.map(go, hs))
        # ---- triage (DESIGN.md §2.6)
        need_bounded = []
        # a function whose own harness did not go through leaves every proof that *used* its contract
        # unsupported: those callers are re-checked bounded with the callee inlined (DESIGN.md §2.6)
        failed_fns = set(h['fn'] for h, r in zip(hs, rs) if r['status'] != 'ok')
        failed_fns |= set(pu['breaks'])
        for h, r in zip(hs, rs):
            ens, inv, safety, canary = classify(r, pu['labels'], pu['low']['profile'].fn_locals.get(h['fn'], ()))
            r['_ens'], r['_inv'], r['_safety'] = ens, inv, safety
            dep = sorted(set(h.get('replace', [])) & failed_fns)
            r['_dep'] = dep
            if dep and r['status'] == 'ok':
                r['status'] = 'callee-contract-unproved'
                r['msg'] = 'uses the contract of %s, which was not established' % ', '.join(dep)
            if r['status'] in ('binding-break', 'timeout', 'toolerror', 'callee-contract-unproved', 'extraction-break', 'bounded-only') or r['status'] == 'failed':
                need_bounded.append(h)
        brs = dict((h['name'], r) for h, r in zip(need_bounded, ex.map(go_bounded, need_bounded)))
        for h, r in zip(hs, rs):
            results.append(r)
            functions_under_contract.append('%s::%s' % (unit.NAME, h['fn']))
            b = brs.get(h['name'])
            if b is not None:
                results.append(b)
                b['_ens'], b['_inv'], b['_safety'], _c = classify(b, pu['labels'], pu['low']['profile'].fn_locals.get(h['fn'], ()))
            # vacuity guards
            if r['status'] in ('ok', 'failed'):
                cans = [x for x in r['results'] if 'VACUITY_CANARY' in x['desc']]
                dead = [x for x in cans if x['status'] == 'SUCCESS']
                if not cans or dead:
                    undecided.append('VACUITY: harness %s: %s' % (h['name'], 'no canary' if not cans else 'canary unreachable: ' + ', '.join(x['desc'] for x in dead)))
                if r['guards']:
                    undecided.append('GUARD: harness %s: %s' % (h['name'], '; '.join(r['guards'])))
                nloops = len([k for k in (unit.CONTRACTS.get(h['fn'], {}).get('loops') or {})])
                if nloops:
                    have = set(re.sub(r'\.\d+$', '', x['id']).split('.')[-1] for x in r['results'])
                    lps = (unit.CONTRACTS.get(h['fn'], {}).get('loops') or {}).values()
                    needs = ['loop_invariant_base', 'loop_invariant_step'] + (['loop_decreases'] if any(l.get('decreases') for l in lps) else [])
                    for need in needs:
                        if need not in have:
                            undecided.append('GUARD: harness %s: no %s obligation generated (loop contract silently dropped?)' % (h['name'], need))
            # verdicts
            labelled = []
            if r['status'] == 'ok':
                continue
            helper_only = False
            if b is not None and b['status'] not in ('ok', 'failed'):
                b['failures'] = []      # an aborted bounded run decides nothing
                b['_ens'], b['_safety'] = [], []
            bounded_ok = b is not None and b['status'] == 'ok'
            if b is not None and b['status'] == 'failed':
                # a counterexample of the bounded run is concrete: real loops, callees inlined, no havoc
                for f in b['_ens'] + b['_safety']:
                    labelled.append((f, b))
            if r['status'] == 'failed' and not r.get('_dep'):
                # A clause refuted by the MODULAR run (callee contracts assumed, loops replaced by
                # their invariants, ghost state maintained operationally) is a refutation relative to
                # those abstractions.  It is reported when the bounded run refutes the same clause (added
                # above), or when the bounded run could not complete; when the bounded run discharged the
                # clause the native oracle must confirm it on the real code, else the outcome is
                # "proof broken, not refuted" (DESIGN.md §2.6).
                have = set(f['label'] for f, _ in labelled if f['label'])
                for f in r['_ens'] + r['_safety']:
                    if f['label'] and f['label'] in have:
                        continue
                    # Neither "the bounded run discharged it" nor "the bounded run could not complete" makes a modular
                    # refutation a violation by itself (a harmless refactoring can break an invariant, and with it the
                    # clauses derived from it): the native oracle must confirm it on the real code (below), else undecided.
                    r['_inv'] = r['_inv'] + [f]
            if not labelled and r['status'] == 'bounded-only' and bounded_ok:
                continue            # held up to the stated bound; reported under bounded_standins only
            if not labelled:
                why = r.get('msg') or ('%d proof-internal obligation(s) failed: %s' % (len(r['_inv']), ', '.join(sorted(set(f['label'] or f['id'] for f in r['_inv']))[:6])) if r['status'] == 'failed' else r['status'])
                bs = 'bounded stand-in %s (%s)' % (b['status'], b.get('msg', '%d obligations' % len(b['results']))) if b is not None else 'no bounded run'
                # An obligation that was discharged on the unchanged tree fails now, but neither run
                # produced a counterexample to a property-level clause (a loop-invariant counterexample
                # is a havocked mid-loop state).  Replay on the real code: the unit's native oracle
                # evaluates this function's property-level postconditions on the neighbourhood of inputs.
                pf = (r['_inv'] or [dict(id=r['status'], label=None, desc=why, trace='')])[0]
                if hasattr(unit, 'replay_counterexample') and r['status'] in ('failed', 'binding-break', 'timeout', 'callee-contract-unproved', 'extraction-break'):
                    try:
                        rr = unit.replay_counterexample(pu, h, pf.get('label'), pf, work, tier, seed)
                    except Exception as e:
                        rr = dict(failing_input_found=False, replay_error=str(e))
                    ol = rr.get('oracle_label')
                    if rr.get('failing_input_found') and ol and prop in (pu['labels'].get(ol) or []):
                        violations.append(dict(label=ol, unit=unit, pu=pu, harness=h, failure=pf, result=r, bounded_failure=None, bounded=b, replay=rr,
                                               note='failed proof obligation: %s; refuted on the real code by the native oracle' % (pf.get('label') or pf.get('id'))))
                        continue
                undecided.append('UNDECIDED: %s/%s: proof not established (%s); %s — property not refuted' % (unit.NAME, h['name'], why, bs))
                continue
            seen = set()
            for f, src in labelled:
                label = f['label'] or ('%s:%s' % (h['fn'], re.sub(r'\.\d+$', '', f['id'])))
                props = pu['labels'].get(f['label']) if f['label'] else None
                if props is not None and prop not in props:
                    print('NOTE: obligation %s (properties %s) failed in harness %s; not part of %s' % (label, ','.join(props), h['name'], prop))
                    continue
                if label in seen:
                    continue
                seen.add(label)
                # prefer the bounded (concrete-loop) counterexample for replay when there is one
                bf = None
                if b is not None:
                    bf = next((x for x in b['failures'] if x['label'] == f['label'] and f['label'] and 'postcondition' in x['id']), None)
                violations.append(dict(label=label, unit=unit, pu=pu, harness=h, failure=f, result=src, bounded_failure=bf, bounded=b))
        if nat_future is not None:
            try:
                nv = nat_future.result()
                native.append(nv)
                if nv.get('status') == 'disagree':
                    undecided.append('TRANSLITERATION BREAK (%s): lowered C and the real C++ disagree: %s' % (unit.NAME, nv.get('detail', '')))
                elif nv.get('status') == 'error':
                    undecided.append('NATIVE BUILD BREAK (%s): %s' % (unit.NAME, nv.get('detail', '')))
            except Exception as e:
                undecided.append('NATIVE BREAK (%s): %s' % (unit.NAME, e))
        ex.shutdown()

    unit_errors = []

    def do_unit_guarded(unit):
        try:
            do_unit(unit)
        except Exception as e:
            unit_errors.append('%s: %s\n%s' % (unit.NAME, e, traceback.format_exc()))
    with ThreadPoolExecutor(max_workers=UNIT_PAR) as uex:
        list(uex.map(do_unit_guarded, all_units()))
    for ue in unit_errors:
        print('INTERNAL ERROR in unit ' + ue)
        undecided.append('INTERNAL ERROR in unit ' + ue.split('\n')[0])

    if not units_used and not undecided:
        print('no harness registered for property %s' % prop)
        return 2

    # ---- replay + known findings
    kf = known_findings()
    out_viol = []
    for v in violations:
        rp = write_replay(prop, v, work, tier, seed)
        if 'UF' in v['harness'].get('flags', []) and not rp.get('failing_input_found') and clause_uses_fp(v):
            # floating-point operators are uninterpreted in this harness: a failed clause may only mean
            # that the code computes the value by a different (equivalent in real arithmetic) expression.
            # Without a failing input on the real code it is not a refutation (DESIGN.md §2.3).
            undecided.append('UNDECIDED: obligation %s failed under the uninterpreted-FP abstraction but the native oracle (real arithmetic, tolerance 1e-11) found no failing input on the real code; replay=%s' % (v['label'], rp['path']))
            continue
        if 'UF' in v['harness'].get('flags', []) and rp.get('oracle_label') and rp.get('oracle_label') != v['label'] and not rp.get('matched_same_obligation'):
            # confirmed by the oracle, but on a different clause: report under the clause the real code violates
            if any(x['label'] == rp['oracle_label'] for x in violations):
                undecided.append('NOTE: obligation %s failed under the uninterpreted-FP abstraction; on the real code the oracle refutes %s (reported separately)' % (v['label'], rp['oracle_label']))
                continue
        hit = next((k for k in kf if k['prop'] == prop and k['label'] == v['label'] and (not k['sig'] or re.search(k['sig'], rp['signature'] or ''))), None)
        if hit:
            known_hits.append((hit, v))
            print('KNOWN-FINDING: property=%s %s [%s]' % (prop, hit['what'], v['label']))
        else:
            out_viol.append((v, rp))

    # ---- evidence
    known_labels = set(v['label'] for _, v in known_hits)
    # obligations of listed known findings are reported separately (coverage.known_findings_hit), not as obligations of this run
    all_labels = {}
    for pu in units_used:
        all_labels.update(pu['labels'])

    def foreign(x):
        # a labelled clause that serves other properties only (e.g. the C09 scoping clause inside a harness that C12
        # runs for its memory-safety obligations) is not an obligation of THIS property
        pr = all_labels.get(x.get('label')) if x.get('label') else None
        return bool(pr) and prop not in pr
    proof_obls = [x for r in results if r['mode'] == 'proof' for x in r['results'] if 'VACUITY_CANARY' not in x['desc'] and not (x.get('label') in known_labels and x['status'] != 'SUCCESS') and not foreign(x)]
    n_obl = len(proof_obls)      # canaries are assertions that must FAIL; they are not obligations
    n_ok = len([x for x in proof_obls if x['status'] == 'SUCCESS'])
    n_canary = sum(len([x for x in r['results'] if 'VACUITY_CANARY' in x['desc']]) for r in results if r['mode'] == 'proof')
    if n_ok != n_obl and not out_viol and not undecided:
        bad = [x for x in proof_obls if x['status'] != 'SUCCESS'][:5]
        undecided.append('UNDECIDED: %d obligation(s) neither discharged nor reported: %s' % (n_obl - n_ok, '; '.join('%s [%s] %s' % (x['id'], x['status'], x['desc'][:60]) for x in bad)))
    n_obl_b = sum(len(r['results']) for r in results if r['mode'] == 'bounded')
    labelled_ok = []
    for r in results:
        for x in r['results']:
            if x.get('label') and x['status'] == 'SUCCESS' and r['mode'] == 'proof':
                labelled_ok.append(x['label'])
    assumptions = []
    drops = []
    for pu in units_used:
        drops += ['%s lowering drops: %s' % (pu['unit'].NAME, d) for d in getattr(pu['unit'], 'DROPS', [])]
        assumptions += getattr(pu['unit'], 'ASSUMPTIONS', [])
    ev = dict(
        property_id=prop, tier=tier, seed=seed, level='proof',
        coverage=dict(
            obligations=n_obl, discharged=n_ok,
            checker_cmd='python3 tools/check.py %s --tier %s   [per harness: %s]' % (prop, tier, (results[0]['cmd'] if results and results[0].get('cmd') else 'n/a')),
            trusted_base=['clang 14 JSON AST of the real TU', 'tools/cxx2c.py rule table (guarded by bit-exact native co-execution, not proved)',
                          'shim/*.h contracts of the C++ library entries', 'cbmc 6.11.0 + goto-instrument --dfcc', 'MiniSat (cbmc default)' + (', CaDiCaL (second back end)' if tier == 'thorough' else '')],
            functions_under_contract=sorted(set(functions_under_contract)),
            harnesses=[dict(unit=r.get('unit'), harness=r['harness'], function=r['fn'], mode=r['mode'], status=r['status'],
                            obligations=len(r['results']) - len([x for x in r['results'] if 'VACUITY_CANARY' in x['desc']]),
                            failed=len([f for f in r['failures'] if 'VACUITY_CANARY' not in f['desc']]),
                            back_end='cbmc 6.11.0 / MiniSat', solver_s=r.get('solver_s'), wall_s=r['wall_s'],
                            callees_replaced_by_contract=r.get('replace', []), arithmetic=('uninterpreted FP (UF)' if 'UF' in r.get('flags', []) else 'bit-precise'),
                            second_back_end=r.get('second_backend'), note=r.get('msg'))
                       for r in results],
            bounded_standins=[dict(harness=r['harness'], bound=r.get('bound') or 'small object bounds (-DBL_BOUNDED) / --unwind with unwinding assertions', obligations=len(r['results']), status=r['status'])
                              for r in results if r['mode'] == 'bounded'],
            obligations_bounded_not_counted=n_obl_b,
            vacuity_canaries_reached=n_canary,
            labelled_obligations_discharged=sorted(set(labelled_ok)),
            samples=sorted(set(labelled_ok))[:12] or ['(none discharged)'],
            native=native,
            solver_time_s=round(sum(r.get('solver_s') or 0 for r in results), 1),
            known_findings_hit=[k['what'] for k, _ in known_hits],
            undecided=undecided,
        ),
        assumptions=assumptions + drops,
        wall_s=round(time.time() - t_start, 1),
        violations=len(out_viol),
    )
    # debugging runs (--only) and runs against a deliberately changed tree (VERIF_EVIDENCE_DIR set by tools/mutant_check.sh)
    # do not overwrite the evidence of the last full run
    evdir = os.environ.get('VERIF_EVIDENCE_DIR') or (os.path.join(work, 'evidence') if args.only else os.path.join(ROOT, 'evidence'))
    os.makedirs(evdir, exist_ok=True)
    with open(os.path.join(evdir, prop + '.json'), 'w') as f:
        json.dump(ev, f, indent=1, default=str)

    for r in results:
        print('%-8s %-34s %-14s %5d obligations %3d failed  %6.1fs' % (r.get('unit', ''), r['harness'], r['status'], len(r['results']), len([f for f in r['failures'] if 'VACUITY_CANARY' not in f['desc']]), r['wall_s']))
    for nv in native:
        print('native   %s' % json.dumps({k: v for k, v in nv.items() if k != 'samples'})[:400])
    for v, rp in out_viol:
        print('VIOLATION property=%s replay=%s obligation=%s%s' % (prop, rp['path'], v['label'], '' if rp['failing_input_found'] else ' no-failing-input-found'))
    if out_viol:
        return 1
    if undecided:
        for u in undecided:
            print(u)
        return 2
    print('OK property=%s: %d obligations discharged in %d harness(es), %.0fs' % (prop, n_ok, len([r for r in results if r['mode'] == 'proof']), time.time() - t_start))
    return 0


def clause_uses_fp(v):
    """does the failed clause compare floating-point / complex values (uninterpreted in UF harnesses)?"""
    unit, label = v['unit'], v['label']
    for fn, spec in unit.CONTRACTS.items():
        for clause in spec.get('contract', []):
            if clause[0] == label:
                return bool(re.search(r'CEQ\(|\bc_\w+\(|\bD_[A-Z]+\(|g_p1|BL_SQRT|__CPROVER_equal', clause[2]))
    return True


def write_replay(prop, v, work, tier, seed):
    """replay file: names the failed obligation, carries CBMC's output, and the result of
    replaying the counterexample on the real code through the unit's native oracle."""
    unit = v['unit']
    f = v['bounded_failure'] or v['failure']
    path = os.path.join(ROOT, 'replay', '%s_%s.json' % (prop, re.sub(r'[^\w.]+', '_', v['label'])))
    rec = dict(property=prop, obligation=v['label'], unit=unit.NAME, harness=v['harness']['name'], function=v['harness']['fn'],
               cbmc_obligation_id=f['id'], cbmc_description=f['desc'], cbmc_mode=('bounded' if v['bounded_failure'] else v['result']['mode']),
               cbmc_log=v['result'].get('log'), cbmc_trace=f.get('trace', ''), failing_input_found=False, signature='')
    if v.get('note'):
        rec['note'] = v['note']
    if v.get('replay'):
        rec.update(v['replay'])
    elif hasattr(unit, 'replay_counterexample'):
        try:
            rr = unit.replay_counterexample(v['pu'], v['harness'], v['label'], f, work, tier, seed)
            rec.update(rr)
        except Exception as e:
            rec['replay_error'] = '%s\n%s' % (e, traceback.format_exc())
    rec.pop('trace_last', None)
    with open(path, 'w') as fh:
        json.dump(rec, fh, indent=1, default=str)
    rec['path'] = path
    return rec


def do_replay(prop, path, work):
    rec = json.load(open(path))
    print('obligation:', rec.get('obligation'))
    print('cbmc:', rec.get('cbmc_obligation_id'), rec.get('cbmc_description'))
    cmd = rec.get('reproduce')
    if not cmd:
        print('no native reproduction recorded (no-failing-input-found)')
        return 0
    print('reproduce:', cmd)
    unit = vrun.load_unit(rec['unit'])
    return unit.run_reproduce(rec, work)


if __name__ == '__main__':
    try:
        rc = main()
    except Break as e:
        print(str(e))
        rc = 2
    sys.exit(rc)
