#!/usr/bin/env python3
"""cxx2c — mechanical lowering of selected C++ functions of /repo to C, driven by clang's
typed JSON AST of the real translation unit (DESIGN.md §2.2).

Whitelist printer: every AST node kind, cast kind, callee and type must be known to the active
profile; anything else raises Unsupported ("extraction break", exit 2 in the runner) — never a
verdict.  The emitted C carries structural markers

    /*@CONTRACT:<fn>@*/  /*@PROLOGUE:<fn>@*/  /*@LOOP:<fn>:<k>@*/  /*@LOOPBODY:<fn>:<k>@*/
    /*@BEFORELOOP:<fn>:<k>@*/  /*@AFTERLOOP:<fn>:<k>@*/

that the splicer (tools/splice.py) replaces with the sidecar contracts; <k> is the loop ordinal
in source order inside the function.
"""
import json, re, subprocess, os, sys, hashlib

# The tree under verification.  /repo unless VERIF_REPO names a scratch worktree (used only by tools/seeded_sweep.sh to
# run several seeded changes side by side; every command registered in MANIFEST.json runs without it).
REPO = os.environ.get('VERIF_REPO', '/repo').rstrip('/')


class Unsupported(Exception):
    pass


# --------------------------------------------------------------------------- AST loading

def ast_dump(src, filt, workdir, extra_args=()):
    """Run clang on the real TU and return the list of top-level JSON documents.
    `filt` may be a list of filters: they are dumped in parallel and the documents merged."""
    if isinstance(filt, (list, tuple)):
        from concurrent.futures import ThreadPoolExecutor
        with ThreadPoolExecutor(max_workers=8) as ex:
            parts = list(ex.map(lambda f: ast_dump(src, f, workdir, extra_args), filt))
        seen, out = set(), []
        for p in parts:
            for d in p:
                key = (d.get('kind'), d.get('name'), json.dumps(d.get('range', {}).get('begin', {}), sort_keys=True), json.dumps(d.get('loc', {}), sort_keys=True))
                if key not in seen:
                    seen.add(key)
                    out.append(d)
        return out
    os.makedirs(workdir, exist_ok=True)
    tag = hashlib.sha1((src + '|' + filt + '|' + ' '.join(extra_args)).encode()).hexdigest()[:12]
    out = os.path.join(workdir, 'ast_%s.json' % tag)
    cmd = ['clang++-14', '-std=c++20', '-I' + REPO + '/src', '-I' + REPO + '/src/third_party', '-fsyntax-only', '-w',
           '-Xclang', '-ast-dump=json', '-Xclang', '-ast-dump-filter=' + filt] + list(extra_args) + [src]
    with open(out, 'w') as f:
        r = subprocess.run(cmd, stdout=f, stderr=subprocess.PIPE, text=True)
    if r.returncode != 0:
        raise Unsupported('clang failed on %s: %s' % (src, r.stderr[-2000:]))
    return load_docs(out)


def load_docs(path):
    s = open(path).read()
    dec = json.JSONDecoder()
    docs = []
    i = 0
    n = len(s)
    while i < n:
        while i < n and s[i] in ' \n\r\t':
            i += 1
        if i >= n:
            break
        if s[i] != '{':
            j = s.find('\n', i)
            i = j + 1 if j >= 0 else n
            continue
        d, j = dec.raw_decode(s, i)
        docs.append(d)
        i = j
    return docs


def kids(n):
    return [k for k in n.get('inner', [])]


def qt(n):
    t = n.get('type', {})
    return t.get('desugaredQualType') or t.get('qualType') or ''


def qt_sugar(n):
    return n.get('type', {}).get('qualType', '')


def norm_type(t):
    t = re.sub(r'\bconst\b', '', t)
    t = t.replace('&&', '').replace('&', '')
    t = re.sub(r'\s+', ' ', t).strip()
    t = t.replace('< ', '<').replace(' >', '>').replace(' ,', ',')
    return t


def find_functions(docs, name, need_body=True, parent=None):
    out = []
    for d in docs:
        if d.get('kind') in ('CXXMethodDecl', 'FunctionDecl', 'CXXConstructorDecl') and d.get('name') == name:
            if need_body and not any(k.get('kind') == 'CompoundStmt' for k in kids(d)):
                continue
            out.append(d)
    return out


def walk(n, f):
    f(n)
    for k in kids(n):
        if isinstance(k, dict):
            walk(k, f)


PASS = {'MaterializeTemporaryExpr', 'CXXBindTemporaryExpr', 'ExprWithCleanups', 'ConstantExpr',
        'SubstNonTypeTemplateParmExpr'}
PASS_CASTS = {'LValueToRValue', 'NoOp', 'FunctionToPointerDecay', 'ArrayToPointerDecay',
              'DerivedToBase', 'UncheckedDerivedToBase'}
WRAP_CASTS = {'ConstructorConversion', 'UserDefinedConversion'}
VALUE_CASTS = {'IntegralCast', 'IntegralToFloating', 'FloatingToIntegral', 'FloatingCast',
               'IntegralToBoolean', 'FloatingToBoolean'}


def strip(n):
    """skip value-preserving wrappers"""
    while True:
        k = n.get('kind')
        if k in PASS or (k == 'ImplicitCastExpr' and n.get('castKind') in PASS_CASTS | WRAP_CASTS):
            n = kids(n)[0]
            continue
        return n


def strip_parens(n):
    while True:
        n = strip(n)
        if n.get('kind') == 'ParenExpr':
            n = kids(n)[0]
            continue
        return n


def callee_name(n):
    n = strip(n)
    if n.get('kind') == 'DeclRefExpr':
        return n['referencedDecl']['name']
    if n.get('kind') == 'MemberExpr':
        return n['name']
    if n.get('kind') == 'UnresolvedLookupExpr':
        return n.get('name', '?')
    raise Unsupported('callee ' + str(n.get('kind')))


BASE_TYPE_MAP = [
    (r'^unsigned long$', 'size_t'), (r'^size_t$', 'size_t'), (r'^std::size_t$', 'size_t'),
    (r'^int$', 'int'), (r'^bool$', '_Bool'), (r'^double$', 'double'), (r'^float$', 'float'),
    (r'^void$', 'void'), (r'^char$', 'char'), (r'^unsigned char$', 'unsigned char'),
    (r'^long$', 'long'), (r'^long long$', 'long long'), (r'^unsigned int$', 'unsigned int'),
    (r'^std::int64_t$', 'long'), (r'^int64_t$', 'long'), (r'^unsigned long long$', 'unsigned long long'),
]

INT_TYPES = {'int', 'long', 'long long', 'size_t', 'unsigned int', 'char', 'unsigned char', '_Bool',
             'unsigned long long', 'short', 'unsigned short'}


class Lower:
    """Base printer. Profiles subclass and extend TYPE_MAP / hooks."""
    TYPE_MAP = []
    CLS = ''            # C prefix for member functions
    SELF_T = ''         # C struct name of `this`
    DBL_BIN = {'+': 'D_ADD', '-': 'D_SUB', '*': 'D_MUL', '/': 'D_DIV', '<': 'D_LT', '>': 'D_GT',
               '<=': 'D_LE', '>=': 'D_GE', '==': 'D_EQ', '!=': 'D_NE'}
    IS_METHOD = True
    WRAP_DOUBLE_OPS = True    # route double arithmetic through D_* macros (UF-able)
    CHECK_DIV = True          # wrap signed / and % in an explicit no-trap obligation

    def __init__(self, lowered_methods=(), throwing=()):
        self.lowered = set(lowered_methods)
        self.throwing = set(throwing)
        self.ret0 = ''
        self.needs_prop = False
        self.fn = ''
        self.loop_k = 0
        self.locals = set()
        self.fn_locals = {}
        self.fn_loops = {}
        self.pre = []       # statements to emit before the current statement (hoisted temporaries)
        self.tmpn = 0
        self.tables = []    # file-level generated tables
        self.needed_globals = set()
        self.try_label = None
        self.global_defs = []
        self.fn_unlowered = {}

    # ---------- types
    def ctype(self, t):
        t0 = norm_type(t)
        for pat, c in self.TYPE_MAP + BASE_TYPE_MAP:
            if re.match(pat, t0):
                return c
        raise Unsupported('type ' + t)

    def ctype_safe(self, t):
        try:
            return self.ctype(t)
        except Unsupported:
            return None

    def ct(self, n):
        return self.ctype_safe(qt(n))

    def is_double(self, n):
        return norm_type(qt(n)) in ('double', 'float')

    def zero_of(self, ct):
        if ct == 'void':
            return ''
        if ct in INT_TYPES or ct in ('double', 'float'):
            return '0'
        return '(%s){0}' % ct

    def tmp(self, prefix='t'):
        self.tmpn += 1
        return '%s_%d' % (prefix, self.tmpn)

    # ---------- expressions
    def expr(self, n):
        k = n.get('kind')
        if k in PASS:
            return self.expr(kids(n)[0])
        if k in ('ImplicitCastExpr', 'CXXStaticCastExpr', 'CStyleCastExpr', 'CXXFunctionalCastExpr'):
            return self.cast(n)
        if k == 'ParenExpr':
            return '(' + self.expr(kids(n)[0]) + ')'
        if k == 'IntegerLiteral':
            return self.int_literal(n)
        if k == 'FloatingLiteral':
            v = n['value']
            return v if any(c in v for c in '.eE') else v + '.0'
        if k == 'CXXBoolLiteralExpr':
            return '1' if n['value'] else '0'
        if k == 'CharacterLiteral':
            return str(n['value'])
        if k == 'CXXNullPtrLiteralExpr':
            return 'BL_NULL'
        if k == 'CXXThisExpr':
            return 'self'
        if k == 'DeclRefExpr':
            return self.declref(n)
        if k == 'MemberExpr':
            return self.member(n)
        if k == 'UnaryOperator':
            return self.unary(n)
        if k == 'BinaryOperator':
            return self.binary(n)
        if k == 'CompoundAssignOperator':
            return self.compound_assign(n)
        if k == 'ConditionalOperator':
            c, a, b = kids(n)
            return '(%s ? %s : %s)' % (self.expr(c), self.expr(a), self.expr(b))
        if k in ('CXXConstructExpr', 'CXXTemporaryObjectExpr'):
            return self.construct(n)
        if k == 'InitListExpr':
            return self.initlist(n)
        if k == 'CXXOperatorCallExpr':
            return self.opcall(n)
        if k == 'CXXMemberCallExpr':
            return self.membercall(n)
        if k == 'CallExpr':
            return self.call(n)
        if k == 'StringLiteral':
            return self.string_literal(n)
        if k == 'CXXRewrittenBinaryOperator':
            return self.expr(kids(n)[0])
        if k == 'CXXDefaultArgExpr':
            raise Unsupported('default argument in expression position')
        return self.expr_other(n)

    def expr_other(self, n):
        raise Unsupported('expr kind ' + str(n.get('kind')))

    def int_literal(self, n):
        v = n['value']
        t = norm_type(qt(n))
        suffix = {'unsigned long': 'UL', 'long': 'L', 'unsigned int': 'U', 'long long': 'LL',
                  'unsigned long long': 'ULL'}.get(t, '')
        return v + suffix

    def string_literal(self, n):
        raise Unsupported('string literal outside a known string context')

    def cast(self, n):
        k = n.get('kind')
        ck = n.get('castKind')
        inner = kids(n)[0]
        if k == 'CXXFunctionalCastExpr' and inner.get('kind') == 'InitListExpr' and len(kids(inner)) == 1:
            inner = kids(inner)[0]
        if k == 'ImplicitCastExpr' and ck in PASS_CASTS:
            return self.expr(inner)
        if ck in WRAP_CASTS:
            return self.expr(inner)
        if ck in VALUE_CASTS or ck == 'NoOp':
            ctp = self.ctype(qt(n))
            if ctp == '_Bool':
                return '((%s) != 0)' % self.expr(inner)
            return '((%s)(%s))' % (ctp, self.expr(inner))
        if ck == 'ToVoid':
            return '(void)(%s)' % self.expr(inner)
        if ck == 'NullToPointer':
            return 'BL_NULL'
        return self.cast_other(n, ck, inner)

    def cast_other(self, n, ck, inner):
        raise Unsupported('cast ' + str(ck))

    def declref(self, n):
        rd = n['referencedDecl']
        name = rd['name']
        if rd.get('kind') == 'EnumConstantDecl':
            return 'BL_' + name
        if rd.get('kind') == 'VarDecl' and name not in self.locals and self.is_global_const(n):
            self.needed_globals.add(name)
            return 'BLG_' + name
        return name

    def is_global_const(self, n):
        t = n.get('type', {}).get('qualType', '')
        return t.startswith('const ') and self.ctype_safe(qt(n)) in INT_TYPES | {'double', 'float'}

    def resolve_globals(self, gdocs):
        """file-level arithmetic constants (static const / constexpr) become C constants with the value clang folded"""
        for name in sorted(self.needed_globals):
            vs = [d for d in gdocs if d.get('kind') == 'VarDecl' and d.get('name') == name and kids(d)]
            if len(vs) != 1:
                raise Unsupported('global constant %s: %d definitions' % (name, len(vs)))
            lits = []
            walk(vs[0], lambda z: lits.append(z) if z.get('kind') in ('IntegerLiteral', 'FloatingLiteral', 'ConstantExpr') else None)
            val = None
            for z in lits:
                if z.get('kind') == 'ConstantExpr' and 'value' in z:
                    val = z['value']
                    break
            if val is None:
                plain = [z for z in lits if z.get('kind') != 'ConstantExpr']
                ops = []
                walk(vs[0], lambda z: ops.append(z) if z.get('kind') in ('BinaryOperator', 'UnaryOperator', 'CallExpr', 'DeclRefExpr') else None)
                if len(plain) != 1 or ops:
                    val = self.eval_global_by_compiling(name, vs[0])
                else:
                    val = plain[0]['value']
            self.global_defs.append('static const %s BLG_%s = %s;' % (self.ctype(qt(vs[0])), name, val))

    def eval_global_by_compiling(self, name, vdecl):
        """a file-level arithmetic constant with a non-literal initialiser: let the compiler evaluate it
        (the real translation unit is included and the value printed)"""
        src = getattr(self, 'unit_src', None)
        ns = getattr(self, 'unit_namespace', None)
        if not src or ns is None:
            raise Unsupported('global constant %s is not a plain literal' % name)
        import tempfile
        d = tempfile.mkdtemp(prefix='blg_')
        try:
            with open(os.path.join(d, 'g.cpp'), 'w') as f:
                f.write('#include <cstdio>\n#include "%s"\nint main() { std::printf("%%.17g", (double)(%s::%s)); return 0; }\n' % (src, ns, name))
            r = subprocess.run(['g++', '-std=c++20', '-w', '-O0', '-I' + REPO + '/src', '-I' + REPO + '/src/third_party', os.path.join(d, 'g.cpp'), '-o', os.path.join(d, 'g')] + list(getattr(self, 'unit_libs', [])),
                               capture_output=True, text=True, timeout=300)
            if r.returncode != 0:
                raise Unsupported('global constant %s: cannot be evaluated (%s)' % (name, r.stderr[-300:]))
            r = subprocess.run([os.path.join(d, 'g')], capture_output=True, text=True, timeout=20)
            v = r.stdout.strip()
            ct = self.ctype(qt(vdecl))
            return v if ct in ('double', 'float') else str(int(float(v)))
        finally:
            import shutil
            shutil.rmtree(d, ignore_errors=True)

    def head_only(self, d, cname=None, is_method=True):
        fn = d['name'] if cname is None else cname
        rt = self.ret_ctype(d)
        params = ['struct %s *self' % self.SELF_T] if is_method else []
        for pd in kids(d):
            if pd.get('kind') == 'ParmVarDecl':
                params.append(self.param(pd))
        cn = (self.CLS + '_' if self.CLS else '') + fn
        return '%s %s(%s)' % (rt, cn, ', '.join(params) if params else 'void')

    def member(self, n):
        base = kids(n)[0]
        if strip(base).get('kind') == 'CXXThisExpr':
            return 'self->' + n['name']
        arrow = n.get('isArrow') and strip(base).get('kind') != 'CXXOperatorCallExpr'
        return '(%s)%s%s' % (self.expr(base), '->' if arrow else '.', n['name'])

    def unary(self, n):
        op = n['opcode']
        e = self.expr(kids(n)[0])
        if op == '-' and self.is_double(n) and self.WRAP_DOUBLE_OPS:
            return 'D_NEG(%s)' % e
        if op == '-' and self.ct(n) in ('int', 'long', 'long long'):
            return 'BL_INEG(%s, %s)' % (self.ct(n).replace(' ', '_'), e)
        return '(%s%s)' % (e, op) if n.get('isPostfix') else '(%s%s)' % (op, e)

    def binary(self, n):
        op = n['opcode']
        a, b = kids(n)
        if op in self.DBL_BIN and self.is_double(a) and self.is_double(b) and self.WRAP_DOUBLE_OPS:
            return '%s(%s, %s)' % (self.DBL_BIN[op], self.expr(a), self.expr(b))
        if op == '*' and self.CHECK_DIV and self.ct(n) in ('int', 'long', 'long long') and self.ct(a) == self.ct(n) and self.ct(b) == self.ct(n):
            return 'BL_IMUL(%s, %s, %s)' % (self.ct(n).replace(' ', '_'), self.expr(a), self.expr(b))
        if op in ('/', '%') and self.CHECK_DIV and self.ct(n) in ('int', 'long', 'long long'):
            return 'BL_%s(%s, %s, %s)' % ('SDIV' if op == '/' else 'SMOD', self.ct(n).replace(' ', '_'),
                                          self.expr(a), self.expr(b))
        if op == ',':
            return '(%s , %s)' % (self.expr(a), self.expr(b))
        return '(%s %s %s)' % (self.expr(a), op, self.expr(b))

    def compound_assign(self, n):
        op = n['opcode']
        a, b = kids(n)
        if self.is_double(a) and self.WRAP_DOUBLE_OPS and op[:-1] in self.DBL_BIN:
            return '(%s = %s(%s, %s))' % (self.expr(a), self.DBL_BIN[op[:-1]], self.expr(a), self.expr(b))
        return '(%s %s %s)' % (self.expr(a), op, self.expr(b))

    def construct(self, n):
        raise Unsupported('ctor ' + qt(n))

    def initlist(self, n):
        return '{ ' + ', '.join(self.expr(a) for a in kids(n)) + ' }'

    def opcall(self, n):
        raise Unsupported('operator call ' + callee_name(kids(n)[0]))

    def self_call(self, name, args):
        if name in self.throwing:
            self.needs_prop = True
        return '%s_%s(%s)' % (self.CLS, name, ', '.join(['self'] + [self.arg(a) for a in args]))

    def membercall(self, n):
        ks = kids(n)
        me = strip(ks[0])
        name = me['name']
        obj = kids(me)[0]
        args = ks[1:]
        if strip(obj).get('kind') == 'CXXThisExpr' and name in self.lowered:
            return self.self_call(name, args)
        return self.membercall_other(n, name, obj, args)

    def membercall_other(self, n, name, obj, args):
        raise Unsupported('member call %s on %s' % (name, qt(obj)))

    def arg(self, a):
        return self.expr(a)

    def call(self, n):
        ks = kids(n)
        name = callee_name(ks[0])
        args = ks[1:]
        return self.call_named(n, name, args)

    def call_named(self, n, name, args):
        if name in self.lowered:
            if name in self.throwing:
                self.needs_prop = True
            return '%s(%s)' % (self.free_name(name), ', '.join(self.arg(a) for a in args))
        raise Unsupported('call ' + name)

    def free_name(self, name):
        return (self.CLS + '_' if self.CLS else '') + name

    # ---------- statements
    REF_LOCALS_AS_COPIES = True     # profiles that write through reference locals must lower them as pointers

    def decl(self, v):
        name = v['name']
        t = qt(v)
        if t.rstrip().endswith('&') and not t.rstrip().endswith('&&') and not re.match(r'^\s*const\b', t) and not self.REF_LOCALS_AS_COPIES:
            raise Unsupported('non-const reference local %s : %s' % (name, t))
        ctp = self.ctype(t)
        init = [i for i in kids(v) if 'kind' in i]
        self.locals.add(name)
        if not init:
            return '%s %s;' % (ctp, name)
        return '%s %s = %s;' % (ctp, name, self.expr(init[0]))

    def throw_stmt(self, n, p):
        t = strip(n)
        if t.get('kind') != 'CXXThrowExpr':
            raise Unsupported('throw shape')
        tmp = strip(kids(t)[0])
        while tmp.get('kind') in ('CXXFunctionalCastExpr',):
            tmp = strip(kids(tmp)[0])
        a = kids(tmp)
        if 'BlochError' in qt(tmp) and len(a) >= 3:
            if self.try_label:
                return [p + '{ bl_throw(%s, %s, %s); goto %s; }' % (self.expr(a[0]), self.expr(a[1]), self.expr(a[2]), self.try_label)]
            if getattr(self, 'exit_label', None):
                return [p + '{ bl_throw(%s, %s, %s); goto %s; }' % (self.expr(a[0]), self.expr(a[1]), self.expr(a[2]), self.exit_label)]
            return [p + '{ bl_throw(%s, %s, %s); return %s; }' % (self.expr(a[0]), self.expr(a[1]), self.expr(a[2]), self.ret0)]
        return self.throw_other(tmp, p)

    def throw_other(self, tmp, p):
        raise Unsupported('throw of ' + qt(tmp))

    def is_throw(self, n):
        k = n.get('kind')
        return k == 'CXXThrowExpr' or (k == 'ExprWithCleanups' and strip(n).get('kind') == 'CXXThrowExpr')

    def stmt(self, n, ind):
        k = n.get('kind')
        p = '  ' * ind
        out = []
        self.needs_prop = False
        if k == 'CompoundStmt':
            out.append(p + '{')
            for s in kids(n):
                out += self.stmt(s, ind + 1)
            out.append(p + '}')
            return out
        if k == 'DeclStmt':
            for v in kids(n):
                if v.get('kind') != 'VarDecl':
                    raise Unsupported('decl kind ' + str(v.get('kind')))
                d = self.decl(v)
                out += [p + x for x in self.flush_pre()]
                out.append(p + d)
                if self.needs_prop:
                    out.append(p + self.prop_stmt())
                    self.needs_prop = False
                out.append(p + '/*@AFTERDECL:%s:%s@*/' % (self.fn, v.get('name', '_')))
        elif k == 'ReturnStmt':
            ks = kids(n)
            e = self.ret_expr(ks[0]) if ks else None
            out += [p + x for x in self.flush_pre()]
            if self.needs_prop and e is not None:
                tv = self.tmp('ret')
                out.append(p + '{ %s %s = %s; %s return %s; }' % (self.rt, tv, e, self.prop_stmt(), tv))
                self.needs_prop = False
            elif getattr(self, 'exit_label', None):
                if e is not None:
                    raise Unsupported('return of a value from a function with scope-exit actions')
                out.append(p + 'goto %s;' % self.exit_label)
            else:
                out.append(p + ('return %s;' % e if e is not None else 'return;'))
        elif k == 'IfStmt':
            return self.if_stmt(n, ind)
        elif k == 'ForStmt':
            return self.for_stmt(n, ind)
        elif k == 'WhileStmt':
            return self.while_stmt(n, ind)
        elif k == 'CXXForRangeStmt':
            return self.range_for(n, ind)
        elif k == 'SwitchStmt':
            cond, body = kids(n)[-2:]
            c = self.expr(cond)
            out += [p + x for x in self.flush_pre()]
            out.append(p + 'switch (%s)' % c)
            out += self.stmt(body, ind)
            return out
        elif k == 'CaseStmt':
            ks = kids(n)
            out.append(p + 'case %s:' % self.expr(ks[0]))
            out += self.stmt(ks[-1], ind + 1)
            return out
        elif k == 'DefaultStmt':
            out.append(p + 'default:')
            out += self.stmt(kids(n)[-1], ind + 1)
            return out
        elif self.is_throw(n):
            t = self.throw_stmt(n, p)
            out += [p + x for x in self.flush_pre()]
            out += t
        elif k == 'BreakStmt':
            out.append(p + 'break;')
        elif k == 'ContinueStmt':
            out.append(p + 'continue;')
        elif k == 'NullStmt':
            out.append(p + ';')
        elif k == 'CXXTryStmt':
            return self.try_stmt(n, ind)
        else:
            e = self.expr(n)
            out += [p + x for x in self.flush_pre()]
            out.append(p + e + ';')
        if self.needs_prop:
            out.append(p + self.prop_stmt())
            self.needs_prop = False
        return out

    def prop_stmt(self):
        """what follows a call that may have raised: leave the function, or jump to the enclosing handler"""
        if self.try_label:
            return 'if (bl_exc) goto %s;' % self.try_label
        if getattr(self, 'exit_label', None):
            return 'if (bl_exc) goto %s;' % self.exit_label          # scope-exit actions of the function run on this path too
        return 'if (bl_exc) return %s;' % self.ret0

    def ret_expr(self, n):
        return self.expr(n)

    def try_stmt(self, n, ind):
        """try { B } catch (...) { H }  /  catch (const std::exception&) { H }: run B; a raised exception jumps to
        the handler, which clears it and runs H.  Only catch-all style handlers are lowered (a handler that
        names its exception object and uses it is outside the subset)."""
        p = '  ' * ind
        ks = kids(n)
        if len(ks) != 2 or ks[1].get('kind') != 'CXXCatchStmt':
            raise Unsupported('try with %d handlers' % (len(ks) - 1))
        h = ks[1]
        hk = kids(h)
        var = [k for k in hk if k.get('kind') == 'VarDecl']
        kinds = None        # a handler for a narrower standard exception type catches only raw exceptions of these dynamic kinds
        if var:
            t = qt(var[0])
            if re.search(r'\bstd::invalid_argument\b', t):
                kinds = ['BL_STD_INVALID_ARGUMENT']
            elif re.search(r'\bstd::out_of_range\b', t):
                kinds = ['BL_STD_OUT_OF_RANGE']
            elif re.search(r'\bstd::logic_error\b', t):
                kinds = ['BL_STD_INVALID_ARGUMENT', 'BL_STD_OUT_OF_RANGE']
            elif 'exception' not in t and 'BlochError' not in t:
                raise Unsupported('catch of ' + t)
            used = []
            walk(hk[-1], lambda z: used.append(z) if z.get('kind') == 'DeclRefExpr' and z['referencedDecl'].get('id') == var[0].get('id') else None)
            if used:
                raise Unsupported('handler uses the exception object')
        self.tmpn += 1
        lab = 'bl_catch_%d' % self.tmpn
        old = self.try_label
        self.try_label = lab
        out = [p + '{'] + self.block(ks[0], ind + 1)
        self.try_label = old
        only_bloch = bool(var) and 'BlochError' in qt(var[0])
        out += [p + '  goto %s_done;' % lab, p + '  %s: ;' % lab]
        if only_bloch:
            # catch (BlochError): a raw C++ exception (BL_EXC_STD) is not caught here, it keeps propagating
            out += [p + '  if (bl_exc == BL_EXC_STD) %s' % self.prop_stmt()]
        if kinds:
            # catch (const std::invalid_argument&) and the like: a BlochError (a std::runtime_error) and a raw exception of another
            # dynamic type keep propagating; the unit's throwing models record the dynamic type in bl_exc_kind
            out += [p + '  if (!(bl_exc == BL_EXC_STD && (%s))) %s' % (' || '.join('bl_exc_kind == ' + k for k in kinds), self.prop_stmt())]
        out += [p + '  bl_exc = 0; bl_exc_line = 0; bl_exc_col = 0;']
        out += self.block(hk[-1], ind + 1)
        out += [p + '  %s_done: ;' % lab, p + '}']
        return out

    def flush_pre(self):
        x = self.pre
        self.pre = []
        return x

    def cond_expr(self, n, p, out):
        """condition of if/while: may be a DeclStmt-less expression; calls that may throw inside a
        condition are hoisted."""
        e = self.expr(n)
        return e

    def if_stmt(self, n, ind):
        p = '  ' * ind
        out = []
        ks = kids(n)
        if n.get('hasVar') or n.get('hasInit'):
            return self.if_with_var(n, ind)
        cond = self.expr(ks[0])
        out += [p + x for x in self.flush_pre()]
        if self.needs_prop:
            tv = self.tmp('c')
            out.append(p + '_Bool %s = %s;' % (tv, cond))
            out.append(p + self.prop_stmt())
            cond = tv
            self.needs_prop = False
        out.append(p + 'if (%s)' % cond)
        out += self.block(ks[1], ind)
        if len(ks) > 2:
            out.append(p + 'else')
            out += self.block(ks[2], ind)
        return out

    def if_with_var(self, n, ind):
        raise Unsupported('if with init/var')

    def loop_marker(self, p):
        k = self.loop_k
        self.loop_k += 1
        return k

    def for_stmt(self, n, ind):
        p = '  ' * ind
        out = []
        init, condvar, cond, inc, body = n['inner']
        k = self.loop_marker(p)
        out.append(p + '/*@BEFORELOOP:%s:%d@*/' % (self.fn, k))
        out.append(p + '{')
        if init.get('kind'):
            out += self.stmt(init, ind + 1)
        c = self.expr(cond) if cond.get('kind') else '1'
        if self.pre or self.needs_prop:
            raise Unsupported('hoisting needed in for-condition')
        s = self.expr(inc) if inc.get('kind') else ''
        if self.pre or self.needs_prop:
            raise Unsupported('hoisting needed in for-increment')
        out.append(p + '  for (; %s; %s)' % (c, s))
        out.append(p + '    /*@LOOP:%s:%d@*/' % (self.fn, k))
        out += self.loop_body(body, ind + 1, k)
        out.append(p + '}')
        out.append(p + '/*@AFTERLOOP:%s:%d@*/' % (self.fn, k))
        return out

    def while_stmt(self, n, ind):
        p = '  ' * ind
        out = []
        cond, body = kids(n)[-2:]
        k = self.loop_marker(p)
        out.append(p + '/*@BEFORELOOP:%s:%d@*/' % (self.fn, k))
        c = self.expr(cond)
        if self.pre or self.needs_prop:
            raise Unsupported('hoisting needed in while-condition')
        out.append(p + 'while (%s)' % c)
        out.append(p + '  /*@LOOP:%s:%d@*/' % (self.fn, k))
        out += self.loop_body(body, ind, k)
        out.append(p + '/*@AFTERLOOP:%s:%d@*/' % (self.fn, k))
        return out

    def loop_body(self, body, ind, k):
        p = '  ' * ind
        inner = self.block(body, ind)
        # inner[0] is '{'
        return [inner[0], p + '  /*@LOOPBODY:%s:%d@*/' % (self.fn, k)] + inner[1:]

    def range_for(self, n, ind):
        raise Unsupported('range-for')

    def block(self, n, ind):
        if n.get('kind') == 'CompoundStmt':
            return self.stmt(n, ind)
        return ['  ' * ind + '{'] + self.stmt(n, ind + 1) + ['  ' * ind + '}']

    # ---------- functions
    def param(self, pd):
        ctp = self.ctype(qt(pd))
        return '%s %s' % (ctp, pd['name'])

    def ret_ctype(self, d):
        t = d['type'].get('desugaredQualType') or d['type']['qualType']
        if t.startswith('auto '):
            t = d['type']['qualType']
        # "RET (PARAMS) quals": find the '(' that matches the last ')'
        j = t.rfind(')')
        depth = 0
        i = j
        while i >= 0:
            if t[i] == ')':
                depth += 1
            elif t[i] == '(':
                depth -= 1
                if depth == 0:
                    break
            i -= 1
        return self.ctype(t[:i].strip())

    def func(self, d, cname=None, is_method=True):
        self.fn = d['name'] if cname is None else cname
        self.loop_k = 0
        self.locals = set()
        self.tmpn = 0
        rt = self.ret_ctype(d)
        self.rt = rt
        self.ret0 = self.zero_of(rt)
        params = ['struct %s *self' % self.SELF_T] if is_method else []
        for pd in kids(d):
            if pd.get('kind') == 'ParmVarDecl':
                params.append(self.param(pd))
                self.locals.add(pd.get('name', ''))
        body = [k for k in kids(d) if k.get('kind') == 'CompoundStmt'][0]
        cn = (self.CLS + '_' if self.CLS else '') + self.fn
        head = '%s %s(%s)' % (rt, cn, ', '.join(params) if params else 'void')
        lines = self.stmt(body, 0)
        lines = [lines[0], '  /*@PROLOGUE:%s@*/' % self.fn] + lines[1:]
        self.fn_locals[self.fn] = set(self.locals)
        self.fn_loops[self.fn] = self.loop_k
        return head, ['/*@CONTRACT:%s@*/' % self.fn] + lines
