#!/bin/bash
# seeded_sweep.sh [ids...]: apply every stored seeded change (seeded/<id>/patch.diff) to /repo in turn, run the quick check
# of the property it breaks, undo it.  Prints one line per change.  Evidence of these runs goes to .work/mutant_evidence.
cd /verif || exit 9
git -C /repo diff --quiet -- src || { echo "/repo has local changes; refusing"; exit 9; }
ids="$@"; [ -z "$ids" ] && ids=$(ls seeded)
mkdir -p .work/seeded_sweep
for id in $ids; do
  d=seeded/$id; [ -f $d/patch.diff ] || continue
  prop=$(python3 -c "import json; print(json.load(open('$d/meta.json'))['breaks_property'].split('/')[0])")
  if ! git -C /repo apply --check /verif/$d/patch.diff 2>/dev/null; then echo "$id property=$prop SKIPPED (patch no longer applies to the current tree)"; continue; fi
  git -C /repo apply /verif/$d/patch.diff
  VERIF_EVIDENCE_DIR=/verif/.work/mutant_evidence bin/check $prop > .work/seeded_sweep/$id.log 2>&1; rc=$?
  git -C /repo checkout -- .
  labs=$(grep "^VIOLATION" .work/seeded_sweep/$id.log | sed 's/.*obligation=//' | cut -d' ' -f1 | sort -u | head -3 | tr '\n' ' ')
  echo "$id property=$prop exit=$rc ${labs}"
done
git -C /repo status --short | grep -v _build
