#!/bin/bash
# seeded_sweep.sh [-j N] [ids...]: regression over the stored seeded changes (seeded/<id>/patch.diff).  Each change is applied to a
# scratch git worktree of /repo's HEAD (never to /repo itself), the quick check of the property it breaks is run against
# that worktree (VERIF_REPO / VERIF_WORK point the machinery at it), and one line per change is printed.  N worktrees are
# used side by side (default 4); all of them and their build output are removed at the end.  Evidence of these runs goes to
# the scratch directory, never to /verif/evidence.
cd /verif || exit 9
J=4; if [ "$1" = "-j" ]; then J=$2; shift 2; fi
ids="$@"; [ -z "$ids" ] && ids=$(ls seeded)
git -C /repo diff --quiet -- src || { echo "/repo has local changes; refusing"; exit 9; }
BASE=${SWEEP_BASE:-/tmp/bloch_sweep}
mkdir -p .work/seeded_sweep $BASE
worker() {
  k=$1; shift
  wt=$BASE/wt$k; wk=$BASE/work$k
  git -C /repo worktree add --detach -f $wt HEAD >/dev/null 2>&1 || { echo "worker $k: cannot create worktree"; return; }
  for id in "$@"; do
    d=seeded/$id; [ -f $d/patch.diff ] || continue
    prop=$(python3 -c "import json; print(json.load(open('$d/meta.json'))['breaks_property'].split('/')[0])")
    if ! git -C $wt apply --check /verif/$d/patch.diff 2>/dev/null; then echo "$id property=$prop SKIPPED (patch no longer applies to the current tree)"; continue; fi
    git -C $wt apply /verif/$d/patch.diff
    VERIF_REPO=$wt VERIF_WORK=$wk VERIF_EVIDENCE_DIR=$wk/evidence bin/check $prop > .work/seeded_sweep/$id.log 2>&1; rc=$?
    git -C $wt checkout -- .
    labs=$(grep "^VIOLATION" .work/seeded_sweep/$id.log | sed 's/.*obligation=//' | cut -d' ' -f1 | sort -u | head -3 | tr '\n' ' ')
    echo "$id property=$prop exit=$rc ${labs}"
  done
  git -C /repo worktree remove --force $wt; rm -rf $wk
}
# deal the changes round-robin
i=0; declare -a Q
for id in $ids; do Q[$((i % J))]+=" $id"; i=$((i+1)); done
for k in $(seq 0 $((J-1))); do [ -n "${Q[$k]}" ] && worker $k ${Q[$k]} & done
wait
git -C /repo worktree prune; rmdir $BASE 2>/dev/null
git -C /repo worktree list
