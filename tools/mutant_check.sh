#!/bin/bash
# mutant_check.sh <patch.diff> <PROP> [more PROPs]: apply a seeded change to /repo, run the checks, undo it.
# Evidence of these runs goes to .work/mutant_evidence (never to evidence/).
patch="$1"; shift
cd /verif || exit 9
git -C /repo diff --quiet -- src || { echo "/repo has local changes; refusing"; exit 9; }
git -C /repo apply "$patch" || exit 9
for p in "$@"; do
  VERIF_EVIDENCE_DIR=/verif/.work/mutant_evidence bin/check "$p" 2>&1 | grep -E "^(VIOLATION|UNDECIDED|OK|KNOWN-FINDING)|failed  |break" | cut -c1-260
  echo "exit=${PIPESTATUS[0]} property=$p"
done
git -C /repo checkout -- .
git -C /repo status --short | grep -v _build
